"""C20 — training loops compose end to end and keep step and population accounting right."""
from __future__ import annotations

import ast
import sys
from typing import Dict, List, Optional, Set, Tuple

from ..cfg import CFG, Node
from ..core import AnalysisError, Cls, Fn, Repo, call_name, calls_in, const_value, dotted, get_kw, last_attr, short, walk_no_nested
from ..pat import has
from ..report import Check
from ..util import self_attr_stores
from ._c20_channels import channel_typestate

LOOPS = {
    "train_off_policy": "agilerl.training.train_off_policy",
    "train_on_policy": "agilerl.training.train_on_policy",
    "train_offline": "agilerl.training.train_offline",
    "train_bandits": "agilerl.training.train_bandits",
    "train_multi_agent_off_policy": "agilerl.training.train_multi_agent_off_policy",
    "train_multi_agent_on_policy": "agilerl.training.train_multi_agent_on_policy",
}
TENSORDICT_LEARNERS = [("agilerl.algorithms.dqn", "DQN"), ("agilerl.algorithms.cqn", "CQN"), ("agilerl.algorithms.dqn_rainbow", "RainbowDQN"),
                       ("agilerl.algorithms.ddpg", "DDPG"), ("agilerl.algorithms.td3", "TD3"),
                       ("agilerl.algorithms.neural_ucb_bandit", "NeuralUCB"), ("agilerl.algorithms.neural_ts_bandit", "NeuralTS")]
TESTERS = [("agilerl.algorithms.dqn", "DQN"), ("agilerl.algorithms.cqn", "CQN"), ("agilerl.algorithms.dqn_rainbow", "RainbowDQN"), ("agilerl.algorithms.ddpg", "DDPG"),
           ("agilerl.algorithms.td3", "TD3"), ("agilerl.algorithms.ppo", "PPO"), ("agilerl.algorithms.ippo", "IPPO"), ("agilerl.algorithms.maddpg", "MADDPG"),
           ("agilerl.algorithms.matd3", "MATD3"), ("agilerl.algorithms.neural_ucb_bandit", "NeuralUCB"), ("agilerl.algorithms.neural_ts_bandit", "NeuralTS")]


def run(ck: Check, repo: Repo) -> None:
    # "a population of the size it was given with distinct indices ... the best agent is carried unchanged into the next generation" is produced by
    # TournamentSelection.select, which every training loop calls: the C05 obligations about size, fresh indices and the elite are taken over
    # (nested Check first: it resets the per-run pattern environments)
    from dataclasses import replace
    from . import c05
    sub = Check("C05", ck.tier, ck.repo_root)
    sub.known = []
    c05.run(sub, repo)
    ck.rule("C20.10", "selection inside the training loops keeps the population size, gives every non-elite member a fresh index and carries the elite over first "
                      "(obligations of C05.1, C05.3, C05.4 and C05.5, shared with the C05 check; C05.1: the elite is ranked by one scalar score per member, also when fitness entries are per-agent vectors)")
    taken = [replace(o, rule="C20.10") for o in sub.obs if o.rule in ("C05.1", "C05.3", "C05.4", "C05.5")]
    if len(taken) < 8:
        raise AnalysisError(f"C20.10: only {len(taken)} obligations taken over from C05.3-5")
    for o in taken:
        if o.status == "violated" and ck._known_entry(o) is not None:
            o.status = "known"
    ck.obs.extend(taken)
    ck.not_decided += ["running to completion on real environments (runtime behaviour)", "that evaluation scores are computed correctly"]
    ck.trusted += ["ReplayBuffer.sample returns a TensorDict keyed obs/action/reward/next_obs/done (checked under C09); MultiAgentReplayBuffer.sample returns a 5-tuple",
                   f"isinstance() against a runtime_checkable Protocol uses inspect.getattr_static on Python >= 3.12 (this interpreter: {sys.version_info.major}.{sys.version_info.minor})"]
    ck.rule("C20.1", "producer / consumer agreement: every learn() that is fed TensorDict batches by the training loops reads its fields by key on that path "
                     "(a bare tuple-unpack of a TensorDict iterates over its batch dimension)")
    ck.rule("C20.3", "constructibility: no assertion / branch depends on isinstance() against a runtime_checkable Protocol whose data members the concrete "
                     "classes provide only as nn.Module children (always False on Python >= 3.12)")
    ck.rule("C20.4", "step accounting: exactly one `steps += num_envs` (and total_steps) per env.step on every path; the agent's counter grows by the "
                     "steps it took, once per agent and generation; one new counter entry per agent per generation; the loop stops on the documented budget")
    ck.rule("C20.5", "every test() appends exactly one fitness entry on every path and returns it")
    ck.rule("C20.6", "the population handed on (and finally returned) is the result of tournament selection and mutation of the current population; "
                     "(population, fitnesses) is returned")
    ck.rule("C20.7", "evaluation handles what the rollout handles: a test() that distinguishes vectorised from single environments un-batches the action "
                     "and wraps the done flags for a single environment the way its training loop does")
    ck.rule("C20.9", "one way into the buffer, one way out: training loops store transitions through the dtype-normalising Transition class and every "
                     "learn() passes observations through preprocess_observation before a network call")
    _consumers(ck, repo)
    _sampled_keys(ck, repo)
    _protocol_isinstance(ck, repo)
    _accounting(ck, repo)
    _fitness(ck, repo)
    _population(ck, repo)
    _eval_vs_rollout(ck, repo)
    _buffer_idiom(ck, repo)
    ck.rule("C20.12", "a generation in which no episode finished is handled: np.stack / np.concatenate over a filtered list of the training loops runs "
                      "only under a test of that same list (the filter can leave it empty; stacking an empty list raises)")
    _guarded_reductions(ck, repo)
    ck.rule("C20.13", "score bookkeeping of the multi-agent loops: the running score array has one column per entry of the reward dictionary that is "
                      "added to it (per agent with the environment's rewards, per shared id with sum_shared_rewards) — grouped agents included")
    _score_widths(ck, repo)
    ck.rule("C20.11", "channel-order typestate: with swap_channels every observation that travels from env.reset / env.step to get_action, the "
                      "stored transition or learn() is converted to channels-first exactly once on every path (never twice, never not at all)")
    channel_typestate(ck, repo, [repo.fn(m, f) for f, m in LOOPS.items()] + [repo.cls(m, c).methods["test"] for m, c in TESTERS if "test" in repo.cls(m, c).methods], "C20.11")


# ------------------------------------------------------------------------------------------------ roles of locals
# Locals of the inspected functions are never recognised by their spelling; their roles are derived from parameters
# (`pop`, `env`, `max_steps`, ...), attribute / callee names, constants and def-use chains.
def _name_in(e: Optional[ast.AST], names) -> bool:
    return isinstance(e, ast.Name) and e.id in names


def _mentions(e: ast.AST, name: str) -> bool:
    return any(isinstance(x, ast.Name) and x.id == name for x in ast.walk(e))


# `x = a if c else b` and `if c: x = a` / `else: x = b` are the same program: a rule never inspects "the" definition of a local or a conditional expression
# as such, it inspects the alternatives of a value — one per reaching definition and per arm of a conditional expression, each with the guards it is made under.
def _arms(v: Optional[ast.AST], guards: Optional[List[Tuple[ast.AST, bool, Optional[Node]]]] = None) -> List[Tuple[Optional[ast.AST], List[Tuple[ast.AST, bool, Optional[Node]]]]]:
    """(alternative, guards) for a value: the arms of a conditional expression (nested ones flattened) under `guards` plus the arm's own tests
    (leading negations folded into the polarity, as CFG.guards_at does); the value itself otherwise."""
    guards = list(guards or [])
    if not isinstance(v, ast.IfExp):
        return [(v, guards)]
    t, pol = v.test, True
    while isinstance(t, ast.UnaryOp) and isinstance(t.op, ast.Not):
        t, pol = t.operand, not pol
    return _arms(v.body, guards + [(t, pol, None)]) + _arms(v.orelse, guards + [(t, not pol, None)])


def _alternatives(cfg: CFG, n: Optional[Node], name: str) -> List[Tuple[Node, Optional[ast.AST], List[Tuple[ast.AST, bool, Optional[Node]]]]]:
    """(definition node, value, guards) for everything `name` may hold at n (value None for an opaque definition)."""
    out = []
    for d in (cfg.defs_reaching(n, name) if n is not None else []):
        for v, gs in _arms(cfg.value_of_def(d, name), cfg.guards_at(d)):
            out.append((d, v, gs))
    return out


def _def_values(cfg: CFG, n: Optional[Node], name: str) -> List[Optional[ast.AST]]:
    return [v for _, v, _ in _alternatives(cfg, n, name)]


def _expr_guards(cfg: CFG, x: ast.AST) -> List[Tuple[ast.AST, bool, Optional[Node]]]:
    """Everything known where the expression x is evaluated: the `if` tests around its statement (CFG.guards_at) and the tests of the conditional
    expressions it is an arm of."""
    n = cfg.node_of(x)
    if n is None:
        return []

    def go(e: ast.AST, acc):
        if e is x:
            return acc
        if isinstance(e, ast.IfExp):
            t, pol = e.test, True
            while isinstance(t, ast.UnaryOp) and isinstance(t.op, ast.Not):
                t, pol = t.operand, not pol
            for ch, extra in ((e.test, []), (e.body, [(t, pol, None)]), (e.orelse, [(t, not pol, None)])):
                r = go(ch, acc + extra)
                if r is not None:
                    return r
            return None
        for ch in ast.iter_child_nodes(e):
            r = go(ch, acc)
            if r is not None:
                return r
        return None
    out = list(cfg.guards_at(n))
    for root in n.exprs():
        out += go(root, []) or []
    return out


def _is_zero(v: Optional[ast.AST]) -> bool:
    return isinstance(v, ast.Constant) and type(v.value) is int and v.value == 0


def _last_steps_of(e: Optional[ast.AST]) -> Optional[str]:
    """`a` if e is `a.steps[-1]` for a name a."""
    if isinstance(e, ast.Subscript) and const_value(e.slice) == -1 and isinstance(e.value, ast.Attribute) and e.value.attr == "steps" \
            and isinstance(e.value.value, ast.Name):
        return e.value.value.id
    return None


def _loop_var(loop: ast.AST) -> Optional[str]:
    """The element variable of `for a in xs` / `for i, a in enumerate(xs)` (also for a comprehension clause)."""
    t, it = loop.target, loop.iter
    if isinstance(t, ast.Name):
        return t.id
    if isinstance(t, ast.Tuple) and len(t.elts) == 2 and isinstance(t.elts[1], ast.Name) and isinstance(it, ast.Call) and call_name(it) == "enumerate":
        return t.elts[1].id
    return None


def _is_num_envs(cfg: CFG, n: Node, e: Optional[ast.AST]) -> bool:
    """e is the local holding the number of environments: every definition reaching n is `env.num_envs` or the constant 1."""
    if not isinstance(e, ast.Name):
        return False
    vals = _def_values(cfg, n, e.id)
    return bool(vals) and all(v is not None and (dotted(v) == "env.num_envs" or const_value(v) == 1) for v in vals) and any(dotted(v) == "env.num_envs" for v in vals)


def _eval_comps(fn: Fn) -> List[ast.ListComp]:
    """`[a.test(...) for a in <iterable>]`: the evaluation of a population."""
    return [n for n in ast.walk(fn.node) if isinstance(n, ast.ListComp) and isinstance(n.elt, ast.Call) and isinstance(n.elt.func, ast.Attribute) and n.elt.func.attr == "test"
            and len(n.generators) == 1 and _loop_var(n.generators[0]) is not None and _name_in(n.elt.func.value, {_loop_var(n.generators[0])})]


def _fitness_record(fn: Fn):
    """(name the generation's fitnesses are bound to, the `<history>.append(<that name>)` calls)."""
    comps = _eval_comps(fn)
    fit = {t.id for a in ast.walk(fn.node) if isinstance(a, ast.Assign) and any(a.value is c for c in comps) for t in a.targets if isinstance(t, ast.Name)}
    apps = [c for c in calls_in(fn.node) if isinstance(c.func, ast.Attribute) and c.func.attr == "append" and isinstance(c.func.value, ast.Name)
            and len(c.args) == 1 and _name_in(c.args[0], fit)]
    return fit, apps


# ------------------------------------------------------------------------------------------------ C20.1
def _consumers(ck: Check, repo: Repo) -> None:
    n = 0
    for modname, cname in TENSORDICT_LEARNERS:
        fn = repo.fn(modname, f"{cname}.learn")
        cfg = CFG(fn.node)
        p = fn.named_params[1]
        by_key = [x for x in walk_no_nested(fn.node) if isinstance(x, ast.Subscript) and dotted(x.value) == p and isinstance(x.slice, ast.Constant) and isinstance(x.slice.value, str)]
        # `(batch[k] for k in (<keys>))`: the subscript is the generator's own variable
        by_key += [x for x in walk_no_nested(fn.node) if isinstance(x, ast.GeneratorExp) and len(x.generators) == 1 and isinstance(x.generators[0].target, ast.Name)
                   and any(isinstance(y, ast.Subscript) and dotted(y.value) == p and _name_in(y.slice, {x.generators[0].target.id}) for y in ast.walk(x.elt))]
        unpacks = [x for x in cfg.live_nodes() if x.kind == "stmt" and isinstance(x.ast, ast.Assign) and isinstance(x.ast.targets[0], ast.Tuple) and dotted(x.ast.value) == p]
        n += 1
        guarded = True
        for u in unpacks:
            gs = [(ast.unparse(g), pol) for g, pol, _ in cfg.guards_at(u)]
            ok = any((("hasattr" in g and "keys" in g) or "isinstance" in g and ("TensorDict" in g or "dict" in g)) and not pol for g, pol in gs)
            guarded = guarded and ok
        ck.ob("C20.1", fn, unpacks[0].ast if unpacks else fn.node, bool(by_key) and guarded,
              f"{cname}.learn reads the fields of a TensorDict batch by key",
              detail=(f"`{short(unpacks[0].ast, 80)}` unpacks the batch positionally on every path: the batch sampled by ReplayBuffer.sample() is a TensorDict, "
                      "iterating it yields rows, so the loop fails with 'too many values to unpack'" if unpacks and not guarded else f"keyed reads: {len(by_key)}"),
              construct=f"{cname}.learn batch destructuring")
    ck.floor("C20.1", n, 7, "single-agent learners fed from ReplayBuffer")
    # multi-agent: 5-tuple producer and consumer
    ms = repo.fn("agilerl.components.multi_agent_replay_buffer", "MultiAgentReplayBuffer.sample")
    ck.ob("C20.1", ms, ms.node, has(ms.node, 'return tuple($transition.values())'), "the multi-agent buffer hands out a tuple with one entry per field, in field order", construct="MA sample return")
    for modname, cname in (("agilerl.algorithms.maddpg", "MADDPG"), ("agilerl.algorithms.matd3", "MATD3")):
        fn = repo.fn(modname, f"{cname}.learn")
        p = fn.named_params[1]
        unp = [x for x in walk_no_nested(fn.node) if isinstance(x, ast.Assign) and isinstance(x.targets[0], ast.Tuple) and dotted(x.value) == p]
        ck.ob("C20.1", fn, unp[0] if unp else fn.node, len(unp) == 1 and len(unp[0].targets[0].elts) == 5, f"{cname}.learn unpacks the five fields of the multi-agent batch")
    # the loops create the buffer with the five field names in that order
    for lname in ("train_multi_agent_off_policy",):
        fn = repo.fn(LOOPS[lname], lname)
        cfg = CFG(fn.node)
        # the agent is the element variable of a loop over `pop`; the sampler is a local bound to Sampler(...)
        agents = {_loop_var(l) for l in ast.walk(fn.node) if isinstance(l, ast.For) and _mentions(l.iter, "pop")} - {None}
        calls = [c for c in calls_in(fn.node) if isinstance(c.func, ast.Attribute) and c.func.attr == "learn" and _name_in(c.func.value, agents)]

        def sampled(c: ast.Call) -> bool:
            n = cfg.node_of(c)
            if not c.args or not isinstance(c.args[0], ast.Name) or n is None:
                return False
            out = True
            dn = _alternatives(cfg, n, c.args[0].id)
            for d, v, _ in dn:
                if not (isinstance(v, ast.Call) and isinstance(v.func, ast.Attribute) and v.func.attr == "sample" and isinstance(v.func.value, ast.Name)):
                    return False
                sv = _def_values(cfg, d, v.func.value.id)
                # drawn through a Sampler(...) or straight from the buffer parameter it forwards to
                out = out and (v.func.value.id == "memory" and "memory" in fn.params or bool(sv) and all(isinstance(x, ast.Call) and call_name(x) == "Sampler" for x in sv))
            return out and bool(dn)

        ck.ob("C20.1", fn, calls[0] if calls else fn.node, bool(calls) and all(sampled(c) for c in calls), f"{lname}: learn receives what the sampler returned")
    # Sampler dispatch: call shapes
    sm = repo.cls("agilerl.components.sampler", "Sampler")
    table = {"sample_standard": ("self.memory.sample", ["batch_size", "return_idx"]), "sample_per": ("self.memory.sample", ["batch_size", "beta"]),
             "sample_n_step": ("self.memory.sample_from_indices", ["idxs"])}
    for m, (callee, args) in table.items():
        f = sm.methods.get(m)
        ok = f is not None
        if ok:
            rets = [x for x in walk_no_nested(f.node) if isinstance(x, ast.Return) and isinstance(x.value, ast.Call)]
            ok = len(rets) == 1 and call_name(rets[0].value) == callee and [dotted(a) for a in rets[0].value.args] == args
        ck.ob("C20.1", f or sm.methods["__init__"], (f or sm.methods["__init__"]).node, ok, f"Sampler.{m} forwards its arguments to {callee}", construct=f"Sampler.{m}")
    init = sm.methods["__init__"]
    src = ast.unparse(init.node)
    ck.ob("C20.1", init, init.node, has(src, 'self.per = isinstance($memory, PrioritizedReplayBuffer)') and has(src, 'self.n_step = isinstance($memory, MultiStepReplayBuffer)')
          and has(src, 'self.sample = self.sample_per') and has(src, 'self.sample = self.sample_n_step') and has(src, 'self.sample = self.sample_standard'),
          "the sampler picks the sampling function from the kind of buffer it was given", construct="Sampler dispatch")


# ------------------------------------------------------------------------------------------------ C20.3
def _truth_under(e: Optional[ast.AST], guards) -> Optional[bool]:
    """Truth value of e where the guards (test, polarity) are known; None when it cannot be told."""
    if e is None:
        return None
    if isinstance(e, ast.Constant):
        return bool(e.value)
    txt = ast.unparse(e)
    for g, pol, _ in guards:
        if ast.unparse(g) == txt:
            return pol
    if isinstance(e, ast.Compare) and len(e.ops) == 1 and type(e.ops[0]) in _COMPLEMENT:
        # `x is None` is known to be false where `x is not None` is known to be true (and the other way round)
        txt = ast.unparse(ast.Compare(left=e.left, ops=[_COMPLEMENT[type(e.ops[0])]()], comparators=e.comparators))
        for g, pol, _ in guards:
            if ast.unparse(g) == txt:
                return not pol
    if isinstance(e, ast.UnaryOp) and isinstance(e.op, ast.Not):
        t = _truth_under(e.operand, guards)
        return None if t is None else not t
    if isinstance(e, ast.IfExp):
        t = _truth_under(e.test, guards)
        return None if t is None else _truth_under(e.body if t else e.orelse, guards)
    if isinstance(e, ast.BoolOp):
        ts = [_truth_under(v, guards) for v in e.values]
        if isinstance(e.op, ast.And):
            return False if False in ts else (True if all(t is True for t in ts) else None)
        return True if True in ts else (False if all(t is False for t in ts) else None)
    if isinstance(e, ast.Call) and call_name(e) == "bool" and len(e.args) == 1:
        return _truth_under(e.args[0], guards)
    return None


_COMPLEMENT = {ast.Is: ast.IsNot, ast.IsNot: ast.Is, ast.Eq: ast.NotEq, ast.NotEq: ast.Eq, ast.In: ast.NotIn, ast.NotIn: ast.In}


def _same_bindings(cfg: CFG, a: Node, b: Node, e: ast.AST) -> bool:
    """Every name in e is bound by one and the same definition at a and at b (one definition only: with two, the sets may agree while the value
    changed in between — a conditional re-binding inside a loop reaches both places around the back edge)."""
    return all(len(cfg.defs_reaching(a, nm)) == 1 and [n.id for n in cfg.defs_reaching(a, nm)] == [n.id for n in cfg.defs_reaching(b, nm)]
               for nm in {x.id for x in ast.walk(e) if isinstance(x, ast.Name)})


def _unfolded(cfg: CFG, at: Optional[Node], e: Optional[ast.AST], depth: int = 0) -> Optional[ast.AST]:
    """e with every flag — a local with a single definition reaching `at` whose value is a test on the bindings of plain names — replaced by that test, so that
    `f = x is not None` ... `k=f` / `if f:` reads as `k=x is not None` / `if x is not None:`.  Only tests whose outcome cannot change between the definition of
    the flag and `at` are unfolded: identity comparisons of plain names and constants (no calls, attributes, subscripts: the truth of an object may change while
    its binding does not), combined with not / and / or / conditional expressions, over names that are bound by the same definitions at both places."""
    if e is None or at is None or depth > 4:
        return e
    if isinstance(e, ast.Name):
        ds = cfg.defs_reaching(at, e.id)
        v = cfg.value_of_def(ds[0], e.id) if len(ds) == 1 else None
        if v is None or isinstance(v, ast.Name) or not _binding_test(v):
            return e
        w = _unfolded(cfg, ds[0], v, depth + 1)
        return w if _binding_test(w, flags=False) and _same_bindings(cfg, ds[0], at, w) else e
    if isinstance(e, ast.UnaryOp) and isinstance(e.op, ast.Not):
        return ast.UnaryOp(op=ast.Not(), operand=_unfolded(cfg, at, e.operand, depth))
    if isinstance(e, ast.BoolOp):
        return ast.BoolOp(op=e.op, values=[_unfolded(cfg, at, v, depth) for v in e.values])
    if isinstance(e, ast.IfExp):
        return ast.IfExp(test=_unfolded(cfg, at, e.test, depth), body=_unfolded(cfg, at, e.body, depth), orelse=_unfolded(cfg, at, e.orelse, depth))
    return e


def _binding_test(e: ast.AST, flags: bool = True) -> bool:
    """e is built from constants and identity comparisons of plain names / constants with not, and / or and conditional expressions
    (with `flags`: plain names may stand for further such tests)."""
    if isinstance(e, ast.Constant):
        return True
    if isinstance(e, ast.Name):
        return flags
    if isinstance(e, ast.Compare):
        return all(isinstance(o, (ast.Is, ast.IsNot)) for o in e.ops) and all(isinstance(x, (ast.Name, ast.Constant)) for x in [e.left] + e.comparators)
    if isinstance(e, ast.UnaryOp) and isinstance(e.op, ast.Not):
        return _binding_test(e.operand, flags)
    if isinstance(e, ast.BoolOp):
        return all(_binding_test(v, flags) for v in e.values)
    if isinstance(e, ast.IfExp):
        return all(_binding_test(v, flags) for v in (e.test, e.body, e.orelse))
    return False


def _unfolded_guards(cfg: CFG, at: Node, guards):
    """The guards, each also with its flags unfolded (a test of a statement where it is evaluated, a test of a conditional expression at its statement)."""
    out = list(guards)
    for g, pol, t in guards:
        w = _unfolded(cfg, t if t is not None else at, g)
        if w is not g and ast.unparse(w) != ast.unparse(g) and _same_bindings(cfg, t if t is not None else at, at, w):
            while isinstance(w, ast.UnaryOp) and isinstance(w.op, ast.Not):
                w, pol = w.operand, not pol
            out.append((w, pol, t))
    return out


def _made_elsewhere(cfg: CFG, d: Node, dguards, at: Node, guards) -> bool:
    """The definition d is made under the opposite outcome of a test whose outcome is known at `at`: it does not supply the value read there.
    (`x = f(k=True if c else False)` ... `if c: read x` spelled as `if c: x = f(k=True)` / `else: x = f(k=False)` ... `if c: read x`.)  The two tests are the
    same expression over plain names, none of which is rebound between the definition and the read."""
    known = {(ast.unparse(g), pol): g for g, pol, _ in guards}
    for g, pol, _ in dguards:
        other = known.get((ast.unparse(g), not pol))
        if other is None or any(isinstance(x, (ast.Call, ast.Attribute, ast.Subscript, ast.NamedExpr)) for x in ast.walk(g)):
            continue
        names = {x.id for x in ast.walk(g) if isinstance(x, ast.Name)}
        if all({n.id for n in cfg.defs_reaching(d, nm)} == {n.id for n in cfg.defs_reaching(at, nm)} for nm in names):
            return True
    return False


def _sampled_keys(ck: Check, repo: Repo) -> None:
    """The sampled indices are only in a batch when they were asked for: ReplayBuffer.sample adds "idxs" under `return_idx`, the
    prioritised buffer always.  Every read batch["idxs"] inside a training loop gets its batch from a sample call that requests them
    on the path of the read (the two copies of the learn block in train_off_policy must agree on this)."""
    std = repo.fn("agilerl.components.replay_buffer", "ReplayBuffer.sample")
    scfg = CFG(std.node)
    puts = [n for n in scfg.live_nodes() if n.kind == "stmt" and isinstance(n.ast, ast.Assign) and isinstance(n.ast.targets[0], ast.Subscript)
            and const_value(n.ast.targets[0].slice) == "idxs"]
    cond = len(puts) == 1 and [ast.unparse(g) for g, pol, _ in scfg.guards_at(puts[0]) if pol] == ["return_idx"]
    ck.floor("C20.1", 1 if cond else 0, 1, "`idxs` entry added exactly when return_idx is set (the premise of the rule on the training loops)", fn=std)
    per = repo.fn("agilerl.components.replay_buffer", "PrioritizedReplayBuffer.sample")
    pcfg = CFG(per.node)
    pput = [n for n in pcfg.live_nodes() if n.kind == "stmt" and isinstance(n.ast, ast.Assign) and isinstance(n.ast.targets[0], ast.Subscript)
            and const_value(n.ast.targets[0].slice) == "idxs" and not pcfg.guards_at(n)]
    ck.floor("C20.1", len(pput), 1, "unconditional `idxs` entry", fn=per)
    nreads = 0
    for fname, modname in LOOPS.items():
        fn = repo.fn(modname, fname)
        cfg = None
        for sub in walk_no_nested(fn.node):
            if not (isinstance(sub, ast.Subscript) and isinstance(sub.ctx, ast.Load) and const_value(sub.slice) == "idxs" and isinstance(sub.value, ast.Name)):
                continue
            cfg = cfg or CFG(fn.node)
            at = cfg.node_of(sub)
            if at is None:
                continue
            nreads += 1
            guards = _unfolded_guards(cfg, at, _expr_guards(cfg, sub))
            bad = None
            for d, v, dguards in _alternatives(cfg, at, sub.value.id):
                dguards = _unfolded_guards(cfg, d, dguards)
                if _made_elsewhere(cfg, d, dguards, at, guards):
                    continue
                if not (isinstance(v, ast.Call) and last_attr(v) == "sample"):
                    bad = f"the batch comes from `{short(v, 60) if v is not None else d.kind}`"
                    continue
                kw = get_kw(v, "return_idx", None)
                if kw is None and len(v.args) >= 2 and any(ast.unparse(g) == "per" and pol for g, pol, _ in dguards):
                    continue  # sample(batch_size, beta): the prioritised buffer, on the `per` path
                # a flag passed as the argument stands for the test it was computed from (which must still say the same at the read)
                asked = _unfolded(cfg, d, kw)
                if asked is not kw and not _same_bindings(cfg, d, at, asked):
                    asked = kw
                if _truth_under(asked, guards) is not True:
                    bad = f"`{short(v, 80)}` does not request the indices on this path"
            ck.ob("C20.1", fn, sub, bad is None, f"{fname}: a batch whose sampled indices are read was sampled with the indices requested", detail=bad or "",
                  construct=f"{fname}: read of batch['idxs'] / the sample call that produced the batch")
    ck.floor("C20.1", nreads, 4, "reads of the sampled indices inside the training loops")


MA_SCORERS = [("agilerl.training.train_multi_agent_on_policy", "train_multi_agent_on_policy"), ("agilerl.training.train_multi_agent_off_policy", "train_multi_agent_off_policy"),
              ("agilerl.algorithms.ippo", "IPPO.test"), ("agilerl.algorithms.maddpg", "MADDPG.test"), ("agilerl.algorithms.matd3", "MATD3.test")]


def _id_class(cfg: CFG, at: Node, e: ast.AST, depth: int = 0) -> Optional[str]:
    """'shared' when e denotes the shared (grouped) agent ids, 'agents' when it denotes the environment's agents."""
    txt = ast.unparse(e)
    if "shared_agent_ids" in txt:
        return "shared"
    if isinstance(e, ast.Attribute) and e.attr in ("agents", "agent_ids", "possible_agents"):
        return "agents"
    if isinstance(e, ast.Call) and e.args:
        return _id_class(cfg, at, e.args[0], depth)
    if isinstance(e, ast.Name) and depth < 3:
        cls = {_id_class(cfg, d, v, depth + 1) for d, v, _ in _alternatives(cfg, at, e.id) if v is not None}
        return next(iter(cls)) if len(cls) == 1 else None
    return None


def _reward_class(cfg: CFG, at: Node, e: ast.AST) -> Optional[str]:
    """'shared' when e is (a name bound to) the result of sum_shared_rewards, 'agents' when it comes out of env.step."""
    if isinstance(e, ast.Call):
        return "shared" if last_attr(e) == "sum_shared_rewards" else None
    if isinstance(e, ast.Name):
        out = set()
        for d in cfg.defs_reaching(at, e.id):
            a = d.ast if d.kind == "stmt" else None
            if isinstance(a, ast.AugAssign) and isinstance(a.target, ast.Subscript):
                continue  # filling the entries of the dictionary, not a new dictionary
            for v, _ in (_arms(a.value) if isinstance(a, ast.Assign) else [(None, [])]):
                if isinstance(v, ast.DictComp) and len(v.generators) == 1:
                    # {id: 0 for id in IDS}: one entry per element of IDS
                    out.add(_id_class(cfg, d, v.generators[0].iter))
                elif isinstance(v, ast.Call):
                    if last_attr(v) == "sum_shared_rewards":
                        out.add("shared")
                    elif last_attr(v) == "step" and isinstance(a.targets[0], ast.Tuple):
                        out.add("agents")
                    else:
                        out.add(None)
                else:
                    out.add(None)
        return next(iter(out)) if len(out) == 1 else None
    return None


def _score_widths(ck: Check, repo: Repo) -> None:
    n = 0
    for modname, qual in MA_SCORERS:
        fn = repo.fn(modname, qual)
        cfg = CFG(fn.node)
        for node in cfg.live_nodes():
            a = node.ast
            if node.kind != "stmt" or not (isinstance(a, ast.AugAssign) and isinstance(a.op, ast.Add) and isinstance(a.target, ast.Name) and isinstance(a.value, ast.Name)):
                continue
            # the accumulator: np.zeros((E, len(X))) on its per-agent arm
            widths = []
            for d in cfg.defs_reaching(node, a.target.id):
                v = cfg.value_of_def(d, a.target.id)
                if v is None or d is node:
                    continue
                for c in ast.walk(v):
                    if isinstance(c, ast.Call) and last_attr(c) == "zeros" and c.args and isinstance(c.args[0], ast.Tuple) and len(c.args[0].elts) == 2:
                        w = c.args[0].elts[1]
                        if isinstance(w, ast.Call) and call_name(w) == "len" and w.args:
                            widths.append((d, w.args[0]))
            if not widths:
                continue
            # the increment: np.array(list(R.values())) on its per-agent arm — the alternative of a choice (one definition per branch of an if / else or
            # one arm of a conditional expression, whichever way it is spelled) that does not sum over the agents
            rws = []
            alts = [(d, v) for d, v, _ in _alternatives(cfg, node, a.value.id) if v is not None]
            arm = [(d, x) for d, x in alts if not any(isinstance(c, ast.Call) and last_attr(c) == "sum" for c in ast.walk(x))]
            for d, x in arm:
                for c in ast.walk(x):
                    if isinstance(c, ast.Call) and isinstance(c.func, ast.Attribute) and c.func.attr == "values" and not c.args:
                        rws.append((d, c.func.value))
            if not rws:
                continue
            n += 1
            wc = {_id_class(cfg, d, e) for d, e in widths}
            rc = {_reward_class(cfg, d, e) for d, e in rws}
            ok = len(wc) == 1 and len(rc) == 1 and None not in wc and wc == rc
            ck.ob("C20.13", fn, a, ok, f"{qual}: the per-agent score array and the rewards added to it are indexed by the same ids",
                  detail=f"columns: one per {sorted(map(str, wc))} ({', '.join(sorted({ast.unparse(e) for _, e in widths}))}); rewards added: one per "
                         f"{sorted(map(str, rc))} ({', '.join(sorted({ast.unparse(e) for _, e in rws}))})",
                  construct=f"{qual}: width of the score accumulator / keys of the reward added")
    ck.floor("C20.13", n, 5, "score accumulators of the multi-agent loops and test() methods")


def _guarded_reductions(ck: Check, repo: Repo) -> None:
    n_sites = 0
    for fname, modname in LOOPS.items():
        fn = repo.fn(modname, fname)
        cfg = None
        for c in calls_in(fn.node):
            if last_attr(c) not in ("stack", "concatenate", "vstack", "hstack") or not c.args or not isinstance(c.args[0], ast.Name):
                continue
            cfg = cfg or CFG(fn.node)
            at = cfg.node_of(c)
            if at is None:
                continue
            name = c.args[0].id
            defs = _def_values(cfg, at, name)
            # the operand is a list built with a filter: it can be empty whatever the size of what it was built from
            if not defs or not all(isinstance(v, ast.ListComp) and any(g.ifs for g in v.generators) for v in defs):
                continue
            n_sites += 1
            tested = [g for g, pol, _ in _expr_guards(cfg, c) if pol and _tests_nonempty(g, name)]
            others = [ast.unparse(g) for g, pol, _ in _expr_guards(cfg, c) if pol and not _tests_nonempty(g, name)]
            ck.ob("C20.12", fn, c, bool(tested), f"{fname}: `{short(c, 50)}` runs only when the filtered list it stacks is non-empty",
                  detail="" if tested else f"`{name}` is built with a filter and may be empty; the enclosing tests are {others[-2:]}, none of them tests `{name}`",
                  construct=f"{fname}: stack over the filtered list / its emptiness test")
    ck.floor("C20.12", n_sites, 2, "stack calls over filtered lists in the training loops")


def _tests_nonempty(g: ast.AST, name: str) -> bool:
    """g is `name`, `len(name)`, `0 < len(name)`, `len(name) != 0`, or a conjunction with one of them."""
    if isinstance(g, ast.Name):
        return g.id == name
    if isinstance(g, ast.BoolOp) and isinstance(g.op, ast.And):
        return any(_tests_nonempty(v, name) for v in g.values)
    is_len = lambda e: isinstance(e, ast.Call) and call_name(e) == "len" and len(e.args) == 1 and isinstance(e.args[0], ast.Name) and e.args[0].id == name
    if is_len(g):
        return True
    if isinstance(g, ast.Compare) and len(g.ops) == 1:
        l, op, r = g.left, g.ops[0], g.comparators[0]
        if is_len(r) and isinstance(op, ast.Lt) and const_value(l) == 0:
            return True
        if is_len(r) and isinstance(op, ast.LtE) and const_value(l) == 1:
            return True
        if is_len(l) and isinstance(op, ast.NotEq) and const_value(r) == 0:
            return True
    return False


def _protocol_isinstance(ck: Check, repo: Repo) -> None:
    pm = repo.mod("agilerl.protocols")
    protos: Dict[str, Set[str]] = {}
    for c in pm.classes.values():
        rc = any(dotted(d).split(".")[-1] == "runtime_checkable" for d in c.node.decorator_list)
        is_proto = any(dotted(b).split(".")[-1] == "Protocol" for b in c.node.bases)
        if rc and is_proto:
            members = {n.target.id for n in c.node.body if isinstance(n, ast.AnnAssign) and isinstance(n.target, ast.Name)}
            for b in c.node.bases:
                bb = pm.classes.get(dotted(b))
                if bb is not None:
                    members |= {n.target.id for n in bb.node.body if isinstance(n, ast.AnnAssign) and isinstance(n.target, ast.Name)}
            protos[c.name] = members
    ck.note("runtime_checkable_protocols_with_data_members", {k: sorted(v) for k, v in protos.items() if v})
    py312 = sys.version_info >= (3, 12)
    n_sites = 0
    for f in repo.all_functions():
        if f.mod.name.startswith(("agilerl.protocols",)):
            continue
        for c in calls_in(f.node, nested=True):
            if call_name(c) != "isinstance" or len(c.args) != 2:
                continue
            names = [dotted(x) for x in (c.args[1].elts if isinstance(c.args[1], ast.Tuple) else [c.args[1]])]
            for nm in names:
                target = f.mod.imports.get(nm.split(".")[0], "")
                if not target.startswith("agilerl.protocols."):
                    continue
                pname = target.split(".")[-1]
                if pname not in protos or not protos[pname]:
                    continue
                # concrete classes of the same name: members provided only as instance attributes holding modules?
                hidden = _hidden_members(repo, pname, protos[pname])
                if not hidden:
                    continue
                n_sites += 1
                ck.ob("C20.3", f, c, not (py312 and hidden),
                      f"{f.qualname}: the isinstance check against protocol `{pname}` can succeed for the library's own networks",
                      detail=f"`{pname}` declares data members {sorted(hidden)} that the concrete class assigns as nn.Module children (stored in _modules, invisible to "
                             "inspect.getattr_static): on Python >= 3.12 the check is False for every real network, so DDPG / TD3 / PPO cannot be constructed with the "
                             "default share_encoders=True",
                      construct=f"{f.qualname}: {short(c, 80)}")
    ck.note("protocol_isinstance_sites_with_hidden_members", n_sites)
    sp = repo.fn("agilerl.utils.algo_utils", "share_encoder_parameters")
    ck.ob("C20.3", sp, sp.node, any(isinstance(x, ast.Assert) for x in walk_no_nested(sp.node)), "share_encoder_parameters validates its arguments", construct="share_encoder_parameters argument checks")


def _hidden_members(repo: Repo, pname: str, members: Set[str]) -> Set[str]:
    hidden: Set[str] = set()
    concrete = [c for c in repo.all_classes() if c.name == pname and c.mod.name != "agilerl.protocols"]
    for c in concrete:
        if not any("nn.Module" in b or b.endswith("Module") for b in repo.external_base_names(c)):
            continue
        family = [c] + repo.subclasses(c.name)
        for m in members:
            class_level = any(m in k.methods or any((isinstance(n, ast.Assign) and dotted(n.targets[0]) == m) or (isinstance(n, ast.AnnAssign) and n.value is not None and dotted(n.target) == m)
                                                    for n in k.node.body) for k in repo.mro(c))
            if class_level:
                continue
            assigned_module = False
            for k in family:
                for meth in k.methods.values():
                    for attr, vals in self_attr_stores(meth).items():
                        if attr == m and any(isinstance(v, ast.Call) for v in vals):
                            assigned_module = True
            if assigned_module:
                hidden.add(m)
    return hidden


# ------------------------------------------------------------------------------------------------ C20.4
def _accounting(ck: Check, repo: Repo) -> None:
    for lname, modname in LOOPS.items():
        fn = repo.fn(modname, lname)
        cfg = CFG(fn.node)
        whiles = [n for n in cfg.live_nodes() if n.kind == "test" and isinstance(n.stmt, ast.While) and any(_last_steps_of(x) for x in ast.walk(n.ast))]
        ck.ob("C20.4", fn, whiles[0].ast if whiles else fn.node, len(whiles) == 1, f"{lname}: one outer loop on the step budget", construct=f"{lname}: budget loop")
        if len(whiles) != 1:
            continue
        W = whiles[0]
        cond = ast.unparse(W.ast)
        doc = ast.get_docstring(fn.node) or ""
        form = _budget_form(W.ast)
        summed, per_agent = form == "sum", form == "each"
        says_sum = "across the entire population" in doc or "summed" in doc
        ck.ob("C20.4", fn, W.ast, (summed and says_sum) or (per_agent and not says_sum),
              f"{lname}: training continues while the documented budget is not met ({'population sum' if says_sum else 'every agent below max_steps'})",
              detail=f"condition `{cond}`; docstring says {'sum over the population' if says_sum else 'per agent'}")
        steps_calls = [c for c in calls_in(fn.node) if call_name(c) == "env.step"]
        if steps_calls:
            sn = cfg.node_of(steps_calls[0])
            loops = [l for l in cfg.live_nodes() if l.kind == "for" and any(x is steps_calls[0] for x in ast.walk(l.ast))]
            inner = loops[-1]
            body = {n.id for n in cfg.live_nodes() if n.stmt is not None and any(x is n.stmt for b in inner.ast.body for x in ast.walk(b))}
            roles = _counter_roles(cfg, fn, loops, body)
            for var in ("steps", "total_steps"):
                cands = roles[var]
                incs = [n for n in cfg.live_nodes() if n.id in body and n.kind == "stmt" and isinstance(n.ast, ast.AugAssign) and _name_in(n.ast.target, cands) and isinstance(n.ast.op, ast.Add)]
                if lname == "train_bandits":
                    continue
                ok = len(cands) == 1 and len(incs) == 1 and _is_num_envs(cfg, incs[0], incs[0].ast.value)
                if ok:
                    # on every path from env.step to the end of the iteration
                    p = cfg.path_avoiding(sn, {inner.id}, {incs[0].id})
                    ok = p is None and cfg.dominates(sn, incs[0])
                ck.ob("C20.4", fn, incs[0].ast if incs else steps_calls[0], ok, f"{lname}: `{var}` grows by num_envs exactly once for every env.step, on every path",
                      detail=f"increments of {var} in the rollout body: {[short(i.ast, 40) for i in incs]}")
            # steps reset per agent
            resets = [n for n in cfg.live_nodes() if n.kind == "stmt" and isinstance(n.ast, ast.Assign) and _name_in(n.ast.targets[0], roles["steps"]) and _is_zero(n.ast.value)]
            agent_loop = [l for l in loops if _mentions(l.ast.iter, "pop")]
            if lname != "train_bandits":
                ck.ob("C20.4", fn, resets[0].ast if resets else fn.node, len(roles["steps"]) == 1 and len(resets) == 1 and resets[0].id not in body
                      and bool(agent_loop) and any(x is resets[0].ast for x in ast.walk(agent_loop[0].ast)),
                      f"{lname}: the per-agent step counter starts from zero for every agent and generation")
        else:
            roles = {"steps": set(), "total_steps": set()}
        # <agent>.steps[-1] += <steps taken>
        adds = [n for n in cfg.live_nodes() if n.kind == "stmt" and isinstance(n.ast, ast.AugAssign) and _last_steps_of(n.ast.target) and isinstance(n.ast.op, ast.Add)]
        want = {"train_bandits": "episode_steps", "train_offline": "evo_steps"}.get(lname, "steps")
        # what was taken: a parameter in the loops without a rollout of their own, the per-agent counter otherwise
        taken = {want} if want in fn.params else (roles["steps"] if len(roles["steps"]) == 1 else set())
        ok = len(adds) == 1 and _name_in(adds[0].ast.value, taken)
        if ok:
            al = [l for l in cfg.live_nodes() if l.kind == "for" and any(x is adds[0].ast for x in ast.walk(l.ast))]
            ok = len(al) == 1 and _mentions(al[0].ast.iter, "pop") and _loop_var(al[0].ast) == _last_steps_of(adds[0].ast.target) and not cfg.guards_at(adds[0]) == None
            first = cfg.node_of(al[0].ast.body[0]) if al else None
            ok = ok and first is not None and cfg.postdominates(adds[0], first)
        ck.ob("C20.4", fn, adds[0].ast if adds else fn.node, ok, f"{lname}: each agent's counter grows by the steps it took ({want}), once per agent and generation, on every path")
        apps = [c for c in calls_in(fn.node) if isinstance(c.func, ast.Attribute) and c.func.attr == "append" and isinstance(c.func.value, ast.Attribute)
                and c.func.value.attr == "steps" and isinstance(c.func.value.value, ast.Name)]
        ok = len(apps) == 1 and len(apps[0].args) == 1 and _last_steps_of(apps[0].args[0]) == apps[0].func.value.value.id
        if ok:
            n = cfg.node_of(apps[0])
            al = [l for l in cfg.live_nodes() if l.kind == "for" and any(x is apps[0] for x in ast.walk(l.ast))]
            ok = len(al) == 1 and dotted(al[0].ast.iter) == "pop" and _name_in(al[0].ast.target, {apps[0].func.value.value.id}) \
                and not [g for g, p, t in cfg.guards_at(n) if "accelerator" not in ast.unparse(g)]
        ck.ob("C20.4", fn, apps[0] if apps else fn.node, ok, f"{lname}: one new step-counter entry per agent per generation")


_MIRROR = {ast.Lt: ast.Gt, ast.Gt: ast.Lt, ast.LtE: ast.GtE, ast.GtE: ast.LtE}


def _below_budget(e: Optional[ast.AST], neg: bool = False) -> Optional[ast.AST]:
    """x when e (negated when `neg`) says `x < max_steps`: `x < max_steps` / `max_steps > x`, or under a negation `x >= max_steps` / `max_steps <= x`."""
    while isinstance(e, ast.UnaryOp) and isinstance(e.op, ast.Not):
        e, neg = e.operand, not neg
    if not (isinstance(e, ast.Compare) and len(e.ops) == 1):
        return None
    l, r, op = e.left, e.comparators[0], type(e.ops[0])
    if _name_in(l, {"max_steps"}):
        l, r, op = r, l, _MIRROR.get(op)
    if not _name_in(r, {"max_steps"}):
        return None
    return l if op is (ast.GtE if neg else ast.Lt) else None


def _every_agent(e: Optional[ast.AST]):
    """(element, agent variable) when e is a comprehension / generator that has one element for every member of `pop` (arrays and lists made from one included)."""
    while isinstance(e, ast.Call) and last_attr(e) in ("array", "asarray", "list", "tuple") and len(e.args) == 1 and not e.keywords:
        e = e.args[0]
    if isinstance(e, (ast.ListComp, ast.GeneratorExp)) and len(e.generators) == 1 and not e.generators[0].ifs and dotted(e.generators[0].iter) == "pop" \
            and isinstance(e.generators[0].target, ast.Name):
        return e.elt, e.generators[0].target.id
    return None


def _all_steps(e: Optional[ast.AST]) -> bool:
    """e holds `a.steps[-1]` for every a in pop."""
    ea = _every_agent(e)
    return ea is not None and _last_steps_of(ea[0]) == ea[1]


def _reduction(e: Optional[ast.AST]):
    """(reducer, operand) for `f(X)` / `np.f(X)` / `X.f()`."""
    if not isinstance(e, ast.Call) or e.keywords:
        return None
    if len(e.args) == 1 and (isinstance(e.func, ast.Name) or isinstance(e.func, ast.Attribute) and dotted(e.func.value) in ("np", "numpy", "builtins")):
        return last_attr(e), e.args[0]
    if not e.args and isinstance(e.func, ast.Attribute):
        return e.func.attr, e.func.value
    return None


def _budget_form(test: ast.AST) -> Optional[str]:
    """What the condition of the budget loop says, however it is spelled: 'sum' — the steps of all agents add up to less than max_steps;
    'each' — every agent of the population is below max_steps (a conjunction over `pop`: all(...) of the comparisons, element-wise np.less(...).all(),
    no agent at or above the budget, the largest counter below it).  None for anything else (some agent / the slowest agent below it, another counter ...)."""
    e, neg = test, False
    while isinstance(e, ast.UnaryOp) and isinstance(e.op, ast.Not):
        e, neg = e.operand, not neg
    x = _below_budget(e, neg)
    if x is not None:
        r = _reduction(x)
        if r is not None and _all_steps(r[1]):
            return {"sum": "sum", "max": "each", "amax": "each"}.get(r[0])
        return None
    r = _reduction(e)
    if r is None or (r[0], neg) not in (("all", False), ("any", True)):
        return None
    X = r[1]
    # element-wise over an array of the counters: `<array> < max_steps`, np.less(<counters>, max_steps) ...
    if isinstance(X, ast.Call) and len(X.args) == 2 and not X.keywords and last_attr(X) in ("less", "greater", "less_equal", "greater_equal"):
        op = {"less": ast.Lt, "greater": ast.Gt, "less_equal": ast.LtE, "greater_equal": ast.GtE}[last_attr(X)]
        X = ast.Compare(left=X.args[0], ops=[op()], comparators=[X.args[1]])
    if _all_steps(_below_budget(X, neg)):
        return "each"
    # one comparison per agent
    ea = _every_agent(X)
    if ea is not None and _last_steps_of(_below_budget(ea[0], neg)) == ea[1]:
        return "each"
    return None


def _counter_roles(cfg: CFG, fn: Fn, loops: List[Node], body: Set[int]) -> Dict[str, Set[str]]:
    """The two step counters of a rollout loop, by role:
    `steps` (per agent): what is added to <agent>.steps[-1], or a counter set to 0 inside the loop over `pop` (outside the rollout body)
    that the rollout body advances by the number of environments;
    `total_steps` (global): a counter set to 0 outside every loop that the rollout body advances by the number of environments
    or that is reported as "global_step".  More than one candidate for a role means the accounting is inconsistent."""
    live = cfg.live_nodes()
    all_loops = [l for l in ast.walk(fn.node) if isinstance(l, (ast.For, ast.While))]
    agent_loop = [l for l in loops if _mentions(l.ast.iter, "pop")]
    zero = [n for n in live if n.kind == "stmt" and isinstance(n.ast, ast.Assign) and len(n.ast.targets) == 1 and isinstance(n.ast.targets[0], ast.Name) and _is_zero(n.ast.value)]
    in_agent = {n.ast.targets[0].id for n in zero if agent_loop and n.id not in body and any(x is n.ast for x in ast.walk(agent_loop[0].ast))}
    top = {n.ast.targets[0].id for n in zero if not any(x is n.ast for l in all_loops for x in ast.walk(l))}
    advanced = {n.ast.target.id for n in live if n.id in body and n.kind == "stmt" and isinstance(n.ast, ast.AugAssign) and isinstance(n.ast.op, ast.Add)
                and isinstance(n.ast.target, ast.Name) and _is_num_envs(cfg, n, n.ast.value)}
    added = {n.ast.value.id for n in live if n.kind == "stmt" and isinstance(n.ast, ast.AugAssign) and isinstance(n.ast.op, ast.Add) and _last_steps_of(n.ast.target)
             and isinstance(n.ast.value, ast.Name) and n.ast.value.id not in fn.params}
    reported = {x.id for d in ast.walk(fn.node) if isinstance(d, ast.Dict) for k, v in zip(d.keys, d.values) if const_value(k) == "global_step"
                for x in ast.walk(v) if isinstance(x, ast.Name)}
    return {"steps": added | (in_agent & advanced), "total_steps": top & (advanced | reported)}


# ------------------------------------------------------------------------------------------------ C20.5
def _fitness(ck: Check, repo: Repo) -> None:
    for modname, cname in TESTERS:
        fn = repo.fn(modname, f"{cname}.test")
        cfg = CFG(fn.node)
        apps = [cfg.node_of(c) for c in calls_in(fn.node) if call_name(c) == "self.fitness.append"]
        ok = len(apps) == 1 and apps[0] is not None and cfg.postdominates(apps[0], cfg.entry)
        in_loop = ok and any(isinstance(l, (ast.For, ast.While)) and any(x is apps[0].stmt for x in ast.walk(l)) for l in ast.walk(fn.node))
        ck.ob("C20.5", fn, apps[0].ast if apps and apps[0] else fn.node, ok and not in_loop, f"{cname}.test appends exactly one fitness entry, on every path")
        rets = [n for n in cfg.live_nodes() if n.kind == "stmt" and isinstance(n.ast, ast.Return)]
        if apps and apps[0] is not None and rets:
            arg = [c for c in calls_in(fn.node) if call_name(c) == "self.fitness.append"][0].args[0]
            ck.ob("C20.5", fn, rets[0].ast, all(dotted(r.ast.value) == dotted(arg) for r in rets), f"{cname}.test returns the value it recorded")
    # the loops evaluate every agent once per generation
    for lname, modname in LOOPS.items():
        fn = repo.fn(modname, lname)
        comps = _eval_comps(fn)
        ok = len(comps) == 1 and dotted(comps[0].generators[0].iter) == "pop" and not comps[0].generators[0].ifs
        ck.ob("C20.5", fn, comps[0] if comps else fn.node, ok, f"{lname}: every agent of the population is evaluated exactly once per generation")
        # the history is the list the evaluation result is appended to; it is the one handed back with the population
        fit, apps = _fitness_record(fn)
        returned = {r.value.elts[1].id for r in walk_no_nested(fn.node) if isinstance(r, ast.Return) and isinstance(r.value, ast.Tuple) and len(r.value.elts) == 2
                    and isinstance(r.value.elts[1], ast.Name)}
        ck.ob("C20.5", fn, apps[0] if apps else fn.node, len(fit) == 1 and len(apps) == 1 and apps[0].func.value.id in returned, f"{lname}: the generation's fitnesses are recorded once")
        # ... into a history that starts empty: one entry per generation, nothing else
        if apps and isinstance(apps[0].func.value, ast.Name):
            hist = apps[0].func.value.id
            inits = [a for a in walk_no_nested(fn.node) if isinstance(a, ast.Assign) and any(isinstance(t, ast.Name) and t.id == hist for t in a.targets)]
            okh = bool(inits) and all(isinstance(a.value, ast.List) and not a.value.elts for a in inits)
            ck.ob("C20.5", fn, inits[0] if inits else fn.node, okh, f"{lname}: the fitness history starts empty (it holds one entry per generation and nothing else)",
                  detail=f"`{short(inits[0], 80)}`: the returned history starts with entries that are not fitness evaluations" if inits and not okh else "",
                  construct=f"{lname}: fitness history initialisation")


# ------------------------------------------------------------------------------------------------ C20.6
def _population(ck: Check, repo: Repo) -> None:
    for lname, modname in LOOPS.items():
        fn = repo.fn(modname, lname)
        cfg = CFG(fn.node)
        ts = [c for c in calls_in(fn.node) if call_name(c) == "tournament_selection_and_mutation"]
        ck.ob("C20.6", fn, ts[0] if ts else fn.node, len(ts) == 1, f"{lname}: selection and mutation are applied through tournament_selection_and_mutation", construct=f"{lname}: selection call")
        for c in ts:
            n = cfg.node_of(c)
            okp = dotted(get_kw(c, "population", 0)) == "pop" and isinstance(n.ast, ast.Assign) and dotted(n.ast.targets[0]) == "pop"
            ck.ob("C20.6", fn, c, okp, f"{lname}: the next generation replaces the population that was selected from")
            gs = [ast.unparse(g) for g, pol, _ in _expr_guards(cfg, c) if pol]
            ck.ob("C20.6", fn, c, any("tournament" in g and "mutation" in g for g in gs), f"{lname}: only when both a tournament and mutations are configured")
            # evaluation precedes selection in the generation
            comps = _eval_comps(fn)
            if comps:
                en = cfg.node_of(comps[0])
                ck.ob("C20.6", fn, c, en is not None and cfg.dominates(en, n), f"{lname}: agents are evaluated before they are selected")
        rets = [n for n in cfg.live_nodes() if n.kind == "stmt" and isinstance(n.ast, ast.Return)]
        history = {c.func.value.id for c in _fitness_record(fn)[1]}
        ck.ob("C20.6", fn, rets[0].ast if rets else fn.node, bool(rets) and len(history) == 1 and all(
            isinstance(r.ast.value, ast.Tuple) and len(r.ast.value.elts) == 2 and dotted(r.ast.value.elts[0]) == "pop" and _name_in(r.ast.value.elts[1], history) for r in rets),
              f"{lname}: returns (population, fitnesses) on every exit")


# ------------------------------------------------------------------------------------------------ C20.7
def _eval_vs_rollout(ck: Check, repo: Repo) -> None:
    for modname, cname in TESTERS:
        if cname in ("NeuralUCB", "NeuralTS"):
            continue
        fn = repo.fn(modname, f"{cname}.test")
        src = ast.unparse(fn.node)
        computes_vect = has(src, "hasattr($env, 'num_envs')")
        if not computes_vect:
            continue
        steps = [c for c in calls_in(fn.node) if call_name(c) == "env.step"]
        handles = _handles_single_env(fn, steps)
        multi = cname in ("IPPO", "MADDPG", "MATD3")
        ck.ob("C20.7", fn, steps[0] if steps else fn.node, handles,
              f"{cname}.test un-batches the action and wraps scalar done flags when the environment is not vectorised, as its training loop does",
              detail="test() computes num_envs = env.num_envs if hasattr(env, 'num_envs') else 1 but then passes the batched action to env.step and zips the scalar done/trunc flags: "
                     "evaluation on a plain Gymnasium environment fails although the rollout in the training loop handles it (`if not is_vectorised: action = action[0]`)",
              construct=f"{cname}.test: single-environment handling")


def _handles_single_env(fn: Fn, steps: List[ast.Call]) -> bool:
    """Does test() treat a non-vectorised environment separately?  Three shapes, none depending on how a local is spelled:
    (a) a flag derived from hasattr(env, 'num_envs') (assigned directly, or True / False in the two branches of that test) is tested;
    (b) the action handed to env.step is un-batched (`a = a[0]`); (c) a flag returned by env.step is wrapped (`np.array([d])`)."""
    def is_probe(e: ast.AST) -> bool:
        return isinstance(e, ast.Call) and call_name(e) == "hasattr" and len(e.args) == 2 and dotted(e.args[0]) == "env" and const_value(e.args[1]) == "num_envs"

    def consts(stmts: List[ast.stmt], value: bool) -> Set[str]:
        return {t.id for s in stmts if isinstance(s, ast.Assign) and isinstance(s.value, ast.Constant) and s.value.value is value for t in s.targets if isinstance(t, ast.Name)}

    flags: Set[str] = set()
    for x in ast.walk(fn.node):
        if isinstance(x, ast.If) and is_probe(x.test):
            flags |= consts(x.body, True) & consts(x.orelse, False)
        if isinstance(x, ast.Assign) and is_probe(x.value):
            flags |= {t.id for t in x.targets if isinstance(t, ast.Name)}
        if isinstance(x, ast.Assign) and isinstance(x.value, ast.IfExp) and is_probe(x.value.test) and const_value(x.value.body) is True and const_value(x.value.orelse) is False:
            flags |= {t.id for t in x.targets if isinstance(t, ast.Name)}  # the same choice spelled as a conditional expression
    tests = [x.test for x in ast.walk(fn.node) if isinstance(x, (ast.If, ast.IfExp, ast.While))]
    flag_tested = any(_name_in(y, flags) for t in tests for y in ast.walk(t))
    acted = {a.id for c in steps for a in c.args if isinstance(a, ast.Name)}
    unbatched = any(isinstance(x, ast.Assign) and len(x.targets) == 1 and _name_in(x.targets[0], acted) and isinstance(x.value, ast.Subscript)
                    and _name_in(x.value.value, {x.targets[0].id}) and const_value(x.value.slice) == 0 for x in ast.walk(fn.node))
    received = {t.id for x in ast.walk(fn.node) if isinstance(x, ast.Assign) and any(x.value is c for c in steps) for tt in x.targets if isinstance(tt, ast.Tuple)
                for t in tt.elts if isinstance(t, ast.Name)}
    wrapped = any(isinstance(x, ast.Call) and call_name(x) in ("np.array", "numpy.array") and x.args and isinstance(x.args[0], ast.List) and len(x.args[0].elts) == 1
                  and _name_in(x.args[0].elts[0], received) for x in ast.walk(fn.node))
    return flag_tested or unbatched or wrapped


# ------------------------------------------------------------------------------------------------ C20.9
def _buffer_idiom(ck: Check, repo: Repo) -> None:
    for lname in ("train_off_policy", "train_bandits"):
        fn = repo.fn(LOOPS[lname], lname)
        adds = [c for c in calls_in(fn.node) if call_name(c) in ("memory.add", "n_step_memory.add")]
        cfg = CFG(fn.node)
        uses_transition = any(call_name(c) == "Transition" for c in calls_in(fn.node))
        raw = [c for c in calls_in(fn.node) if call_name(c) == "TensorDict"]
        ck.ob("C20.9", fn, raw[0] if raw and not uses_transition else (adds[0] if adds else fn.node), uses_transition,
              f"{lname}: what is stored in the replay buffer is built through the Transition class (float32 / shape normalisation)",
              detail="a raw TensorDict of the environment's float64 arrays is stored; together with a learn() that skips preprocess_observation the first learn step fails with "
                     "a dtype error (Double vs Float)", construct=f"{lname}: buffer entries via Transition")
    for modname, cname in TENSORDICT_LEARNERS:
        fn = repo.fn(modname, f"{cname}.learn")
        helpers = [fn] + [m for m in fn.cls.methods.values() if m.name in ("update", "_dqn_loss")]
        pre = any(call_name(c) == "self.preprocess_observation" for h in helpers for c in calls_in(h.node))
        ck.ob("C20.9", fn, fn.node, pre, f"{cname}.learn passes sampled observations through preprocess_observation before the network call",
              detail="observations go from the batch straight into the network: no float conversion, no one-hot / normalisation as in get_action",
              construct=f"{cname}.learn preprocesses observations")


_TO = "agilerl/training/train_off_policy.py"
_TON = "agilerl/training/train_on_policy.py"
_TMA = "agilerl/training/train_multi_agent_off_policy.py"
_TMAON = "agilerl/training/train_multi_agent_on_policy.py"
VARIANTS = [
    ("ma-on-policy-score-increment-per-env-agent", _TMAON, "                        else np.array(list(shared_reward.values())).transpose()\n", "                        else np.array(list(reward.values())).transpose()\n", "fire", "C20.13"),
    ("ippo-test-scores-per-env-agent", "agilerl/algorithms/ippo.py", "                    reward = self.sum_shared_rewards(reward)\n", "", "fire", "C20.13"),
    ("ma-off-policy-scores-per-shared-id", _TMA, "    agent_ids = deepcopy(env.agents)\n", "    agent_ids = deepcopy(pop[0].shared_agent_ids)\n", "fire", "C20.13"),

    ("ma-stack-guarded-by-the-unfiltered-list", _TMA, "            if pop_mean_scores:\n", "            if pop_episode_scores:\n", "fire", "C20.12"),
    ("ma-stack-guarded-by-len-ok", _TMA, "            if pop_mean_scores:\n", "            if len(pop_mean_scores) > 0:\n", "silent", None),

    ("off-policy-state-swapped-every-step", _TO, "            for idx_step in range(evo_steps // num_envs):\n                # Get next action from agent\n",
     "            for idx_step in range(evo_steps // num_envs):\n                if swap_channels:\n                    state = obs_channels_to_first(state)\n                # Get next action from agent\n", "fire", "C20.11"),
    ("off-policy-first-state-never-swapped", _TO, "            state, info = env.reset()  # Reset environment at start of episode\n            if swap_channels:\n                state = obs_channels_to_first(state)\n",
     "            state, info = env.reset()  # Reset environment at start of episode\n", "fire", "C20.11"),
    ("off-policy-on-policy-idiom-ok", _TO, "                next_state = (\n                    obs_channels_to_first(next_state) if swap_channels else next_state\n                )\n",
     "                raw_next_state = next_state\n                next_state = (\n                    obs_channels_to_first(next_state) if swap_channels else next_state\n                )\n", "silent", None),
    ("on-policy-carried-state-swapped-twice", _TON, "                    state = next_state\n                    done = next_done\n",
     "                    state = obs_channels_to_first(next_state) if swap_channels else next_state\n                    done = next_done\n", "fire", "C20.11"),
    ("on-policy-final-next-state-raw", _TON, "                if swap_channels:\n                    next_state = obs_channels_to_first(next_state)\n\n                experiences = (", "                experiences = (", "fire", "C20.11"),
    ("ma-off-policy-reset-obs-raw", _TMA, "                            obs, info = env.reset()\n                            if swap_channels:\n                                obs = {\n                                    agent_id: obs_channels_to_first(\n                                        s, expand_dims=True\n                                    )\n                                    for agent_id, s in obs.items()\n                                }\n",
     "                            obs, info = env.reset()\n", "fire", "C20.11"),
    ("ma-off-policy-next-obs-moveaxis-dropped", _TMA, "                    next_obs = {\n                        agent_id: np.moveaxis(ns, [-1], [-3])\n                        for agent_id, ns in next_obs.items()\n                    }\n", "", "fire", "C20.11"),

    ("off-policy-second-learn-block-no-indices", _TO, "                        else:\n                            experiences = sampler.sample(\n                                agent.batch_size,\n                                return_idx=True if n_step_memory is not None else False,\n                            )\n                            if n_step_memory is not None:\n                                n_step_experiences = n_step_sampler.sample(\n                                    experiences[\"idxs\"]\n                                )\n                                loss, *_ = agent.learn(\n                                    experiences, n_experiences=n_step_experiences\n                                )\n                            else:\n                                loss = agent.learn(experiences)\n                                if isinstance(agent, RainbowDQN):\n                                    loss, *_ = loss\n\n                if loss is not None:",
     "                        else:\n                            experiences = sampler.sample(agent.batch_size)\n                            if n_step_memory is not None:\n                                n_step_experiences = n_step_sampler.sample(\n                                    experiences[\"idxs\"]\n                                )\n                                loss, *_ = agent.learn(\n                                    experiences, n_experiences=n_step_experiences\n                                )\n                            else:\n                                loss = agent.learn(experiences)\n                                if isinstance(agent, RainbowDQN):\n                                    loss, *_ = loss\n\n                if loss is not None:", "fire", "C20.1"),

    ("off-steps-only-vectorised", _TO, "                total_steps += num_envs\n                steps += num_envs\n", "                total_steps += num_envs\n                if is_vectorised:\n                    steps += num_envs\n", "fire", "C20.4"),
    ("off-steps-plus-one", _TO, "                total_steps += num_envs\n                steps += num_envs\n", "                total_steps += num_envs\n                steps += 1\n", "fire", "C20.4"),
    ("off-agent-steps-twice", _TO, "            agent.steps[-1] += steps\n", "            agent.steps[-1] += steps\n            agent.steps[-1] += steps\n", "fire", "C20.4"),
    ("off-agent-steps-total", _TO, "            agent.steps[-1] += steps\n", "            agent.steps[-1] += total_steps\n", "fire", "C20.4"),
    ("off-budget-any", _TO, "    while np.less([agent.steps[-1] for agent in pop], max_steps).all():", "    while np.less([agent.steps[-1] for agent in pop], max_steps).any():", "fire", "C20.4"),
    ("on-append-only-first", _TON, "        for agent in pop:\n            agent.steps.append(agent.steps[-1])", "        for agent in pop[:1]:\n            agent.steps.append(agent.steps[-1])", "fire", "C20.4"),
    ("off-pop-not-replaced", _TO, "            pop = tournament_selection_and_mutation(\n                population=pop,", "            _ = tournament_selection_and_mutation(\n                population=pop,", "fire", "C20.6"),
    ("off-evaluate-half", _TO, "            for agent in pop\n        ]\n        pop_fitnesses.append(fitnesses)", "            for agent in pop[::2]\n        ]\n        pop_fitnesses.append(fitnesses)", "fire", "C20.5"),
    ("dqn-fitness-twice", "agilerl/algorithms/dqn.py", "        self.fitness.append(mean_fit)\n        return mean_fit", "        self.fitness.append(mean_fit)\n        self.fitness.append(mean_fit)\n        return mean_fit", "fire", "C20.5"),
    ("ddpg-fitness-in-loop", "agilerl/algorithms/ddpg.py", "        mean_fit = np.mean(rewards)\n        self.fitness.append(mean_fit)\n        return mean_fit", "        mean_fit = np.mean(rewards)\n        if len(rewards) > 1:\n            self.fitness.append(mean_fit)\n        return mean_fit", "fire", "C20.5"),
    ("ma-return-fitness-only", _TMA, "    pbar.close()\n    return pop, pop_fitnesses\n", "    pbar.close()\n    return pop_fitnesses, pop\n", "fire", "C20.6"),
    ("dqn-learn-tuple-unpack", "agilerl/algorithms/dqn.py", "        obs = experiences[\"obs\"]\n        actions = experiences[\"action\"]\n        rewards = experiences[\"reward\"]\n        next_obs = experiences[\"next_obs\"]\n        dones = experiences[\"done\"]\n\n        obs = self.preprocess_observation(obs)\n        next_obs = self.preprocess_observation(next_obs)\n\n        loss = self.update(",
     "        obs, actions, rewards, next_obs, dones = experiences\n\n        obs = self.preprocess_observation(obs)\n        next_obs = self.preprocess_observation(next_obs)\n\n        loss = self.update(", "fire", "C20.1"),
]
VARIANTS += [
    ("cqn-unpack-unguarded", "agilerl/algorithms/cqn.py", "        if hasattr(experiences, \"keys\"):\n            # TensorDict (or dict) batch as returned by ``ReplayBuffer.sample()``\n            states, actions, rewards, next_states, dones = (\n                experiences[key]\n                for key in (\"obs\", \"action\", \"reward\", \"next_obs\", \"done\")\n            )\n        else:\n            states, actions, rewards, next_states, dones = experiences\n",
     "        states, actions, rewards, next_states, dones = experiences\n", "fire", "C20.1"),
    ("protocol-isinstance-back", "agilerl/utils/algo_utils.py", "    assert hasattr(policy, \"encoder\"), \"Policy must be an EvolvableNetwork\"", "    assert isinstance(policy, EvolvableNetwork), \"Policy must be an EvolvableNetwork\"", "fire", "C20.3"),
]
# roles derived by def-use instead of by the spelling of locals: each role still has to be played by the right value
VARIANTS += [
    ("off-total-plus-one", _TO, "                total_steps += num_envs\n                steps += num_envs\n", "                total_steps += 1\n                steps += num_envs\n", "fire", "C20.4"),
    ("off-steps-never-reset", _TO, "            steps = 0\n", "", "fire", "C20.4"),
    ("off-budget-renamed-ok", _TO, "    while np.less([agent.steps[-1] for agent in pop], max_steps).all():", "    while np.less([a.steps[-1] for a in pop], max_steps).all():", "silent", None),
    ("off-fitness-to-other-list", _TO, "        pop_fitnesses.append(fitnesses)", "        pop_fps.append(fitnesses)", "fire", "C20"),
    ("off-return-other-list", _TO, "    pbar.close()\n    return pop, pop_fitnesses\n", "    pbar.close()\n    return pop, pop_loss\n", "fire", "C20.6"),
    ("ma-learn-not-sampled", _TMA, "                    for _ in range(num_envs // agent.learn_step):\n                        # Sample replay buffer\n                        experiences = sampler.sample(agent.batch_size)\n                        # Learn according to agent's RL algorithm\n                        loss = agent.learn(experiences)",
     "                    for _ in range(num_envs // agent.learn_step):\n                        # Sample replay buffer\n                        experiences = sampler.sample(agent.batch_size)\n                        # Learn according to agent's RL algorithm\n                        loss = agent.learn(obs)", "fire", "C20.1"),
    ("cqn-keyed-by-constant-var", "agilerl/algorithms/cqn.py", "                experiences[key]\n                for key in", "                experiences[0]\n                for key in", "fire", "C20.1"),
]
# one verdict for both spellings of a two-way choice (conditional expression <-> if / else statement)
VARIANTS += [
    ('ma-on-policy-score-increment-as-statements-ok', 'agilerl/training/train_multi_agent_on_policy.py', '                    score_increment = (\n                        (\n                            np.sum(\n                                np.array(list(reward.values())).transpose(), axis=-1\n                            )[:, np.newaxis]\n                            if is_vectorised\n                            else np.sum(\n                                np.array(list(reward.values())).transpose(), axis=-1\n                            )\n                        )\n                        if sum_scores\n                        else np.array(list(shared_reward.values())).transpose()\n                    )\n',
     '                    if sum_scores:\n                        if is_vectorised:\n                            score_increment = np.sum(np.array(list(reward.values())).transpose(), axis=-1)[:, np.newaxis]\n                        else:\n                            score_increment = np.sum(np.array(list(reward.values())).transpose(), axis=-1)\n                    else:\n                        score_increment = np.array(list(shared_reward.values())).transpose()\n', 'silent', None),
    ('ma-on-policy-score-increment-statements-per-env-agent', 'agilerl/training/train_multi_agent_on_policy.py', '                    score_increment = (\n                        (\n                            np.sum(\n                                np.array(list(reward.values())).transpose(), axis=-1\n                            )[:, np.newaxis]\n                            if is_vectorised\n                            else np.sum(\n                                np.array(list(reward.values())).transpose(), axis=-1\n                            )\n                        )\n                        if sum_scores\n                        else np.array(list(shared_reward.values())).transpose()\n                    )\n',
     '                    if sum_scores:\n                        if is_vectorised:\n                            score_increment = np.sum(np.array(list(reward.values())).transpose(), axis=-1)[:, np.newaxis]\n                        else:\n                            score_increment = np.sum(np.array(list(reward.values())).transpose(), axis=-1)\n                    else:\n                        score_increment = np.array(list(reward.values())).transpose()\n', 'fire', 'C20.13'),
    ('maddpg-test-score-array-as-statement-ok', 'agilerl/algorithms/maddpg.py', '                scores = (\n                    np.zeros((num_envs, 1))\n                    if sum_scores\n                    else np.zeros((num_envs, len(self.agent_ids)))\n                )\n',
     '                if sum_scores:\n                    scores = np.zeros((num_envs, 1))\n                else:\n                    scores = np.zeros((num_envs, len(self.agent_ids)))\n', 'silent', None),
    ('maddpg-test-score-array-statement-per-shared-id', 'agilerl/algorithms/maddpg.py', '                scores = (\n                    np.zeros((num_envs, 1))\n                    if sum_scores\n                    else np.zeros((num_envs, len(self.agent_ids)))\n                )\n',
     '                if sum_scores:\n                    scores = np.zeros((num_envs, 1))\n                else:\n                    scores = np.zeros((num_envs, len(self.shared_agent_ids)))\n', 'fire', 'C20.13'),
    ('off-policy-next-state-swap-as-statement-ok', 'agilerl/training/train_off_policy.py', '                next_state = (\n                    obs_channels_to_first(next_state) if swap_channels else next_state\n                )\n',
     '                if swap_channels:\n                    next_state = obs_channels_to_first(next_state)\n                else:\n                    next_state = next_state\n', 'silent', None),
    ('off-policy-next-state-statement-swapped-on-the-wrong-arm', 'agilerl/training/train_off_policy.py', '                next_state = (\n                    obs_channels_to_first(next_state) if swap_channels else next_state\n                )\n',
     '                if swap_channels:\n                    next_state = next_state\n                else:\n                    next_state = obs_channels_to_first(next_state)\n', 'fire', 'C20.11'),
    ('on-policy-state-swap-as-expression-ok', 'agilerl/training/train_on_policy.py', '                    if swap_channels:\n                        state = obs_channels_to_first(state)\n\n                    # Get next action from agent\n',
     '                    state = obs_channels_to_first(state) if swap_channels else state\n\n                    # Get next action from agent\n', 'silent', None),
    ('on-policy-state-expression-swapped-on-the-wrong-arm', 'agilerl/training/train_on_policy.py', '                    if swap_channels:\n                        state = obs_channels_to_first(state)\n\n                    # Get next action from agent\n',
     '                    state = state if swap_channels else obs_channels_to_first(state)\n\n                    # Get next action from agent\n', 'fire', 'C20.11'),
    ('off-policy-indices-request-as-statements-ok', 'agilerl/training/train_off_policy.py', '                        else:\n                            experiences = sampler.sample(\n                                agent.batch_size,\n                                return_idx=True if n_step_memory is not None else False,\n                            )\n                            if n_step_memory is not None:\n                                n_step_experiences = n_step_sampler.sample(\n                                    experiences["idxs"]\n                                )\n                                loss, *_ = agent.learn(\n                                    experiences, n_experiences=n_step_experiences\n                                )\n                            else:\n                                loss = agent.learn(experiences)\n                                if isinstance(agent, RainbowDQN):\n                                    loss, *_ = loss\n\n                if loss is not None:',
     '                        else:\n                            if n_step_memory is not None:\n                                experiences = sampler.sample(agent.batch_size, return_idx=True)\n                            else:\n                                experiences = sampler.sample(agent.batch_size, return_idx=False)\n                            if n_step_memory is not None:\n                                n_step_experiences = n_step_sampler.sample(\n                                    experiences["idxs"]\n                                )\n                                loss, *_ = agent.learn(\n                                    experiences, n_experiences=n_step_experiences\n                                )\n                            else:\n                                loss = agent.learn(experiences)\n                                if isinstance(agent, RainbowDQN):\n                                    loss, *_ = loss\n\n                if loss is not None:', 'silent', None),
    ('off-policy-indices-request-statements-on-the-wrong-arm', 'agilerl/training/train_off_policy.py', '                        else:\n                            experiences = sampler.sample(\n                                agent.batch_size,\n                                return_idx=True if n_step_memory is not None else False,\n                            )\n                            if n_step_memory is not None:\n                                n_step_experiences = n_step_sampler.sample(\n                                    experiences["idxs"]\n                                )\n                                loss, *_ = agent.learn(\n                                    experiences, n_experiences=n_step_experiences\n                                )\n                            else:\n                                loss = agent.learn(experiences)\n                                if isinstance(agent, RainbowDQN):\n                                    loss, *_ = loss\n\n                if loss is not None:',
     '                        else:\n                            if n_step_memory is not None:\n                                experiences = sampler.sample(agent.batch_size, return_idx=False)\n                            else:\n                                experiences = sampler.sample(agent.batch_size, return_idx=True)\n                            if n_step_memory is not None:\n                                n_step_experiences = n_step_sampler.sample(\n                                    experiences["idxs"]\n                                )\n                                loss, *_ = agent.learn(\n                                    experiences, n_experiences=n_step_experiences\n                                )\n                            else:\n                                loss = agent.learn(experiences)\n                                if isinstance(agent, RainbowDQN):\n                                    loss, *_ = loss\n\n                if loss is not None:', 'fire', 'C20.1'),
    ('off-policy-selection-as-conditional-expression-ok', 'agilerl/training/train_off_policy.py', '        if tournament and mutation is not None:\n            pop = tournament_selection_and_mutation(\n                population=pop,',
     '        pop = pop if not (tournament and mutation is not None) else tournament_selection_and_mutation(\n                population=pop,', 'silent', None),
    ('off-policy-selection-expression-without-mutation-test', 'agilerl/training/train_off_policy.py', '        if tournament and mutation is not None:\n            pop = tournament_selection_and_mutation(\n                population=pop,',
     '        pop = pop if not tournament else tournament_selection_and_mutation(\n                population=pop,', 'fire', 'C20.6'),
    ('ma-stack-guarded-by-conditional-expression-ok', 'agilerl/training/train_multi_agent_off_policy.py', '            if pop_mean_scores:\n                mean_scores = np.stack(pop_mean_scores, axis=0)\n',
     '            mean_scores = np.stack(pop_mean_scores, axis=0) if pop_mean_scores else None\n            if pop_mean_scores:\n', 'silent', None),
    ('ma-stack-conditional-expression-on-the-unfiltered-list', 'agilerl/training/train_multi_agent_off_policy.py', '            if pop_mean_scores:\n                mean_scores = np.stack(pop_mean_scores, axis=0)\n',
     '            mean_scores = np.stack(pop_mean_scores, axis=0) if pop_episode_scores else None\n            if pop_mean_scores:\n', 'fire', 'C20.12'),
    ('off-policy-num-envs-as-conditional-expressions-ok', 'agilerl/training/train_off_policy.py', '    if hasattr(env, "num_envs"):\n        num_envs = env.num_envs\n        is_vectorised = True\n    else:\n        num_envs = 1\n        is_vectorised = False\n',
     '    num_envs = env.num_envs if hasattr(env, "num_envs") else 1\n    is_vectorised = True if hasattr(env, "num_envs") else False\n', 'silent', None),
    ('off-policy-single-env-counted-as-two', 'agilerl/training/train_off_policy.py', '    if hasattr(env, "num_envs"):\n        num_envs = env.num_envs\n        is_vectorised = True\n    else:\n        num_envs = 1\n        is_vectorised = False\n',
     '    num_envs = env.num_envs if hasattr(env, "num_envs") else 2\n    is_vectorised = True if hasattr(env, "num_envs") else False\n', 'fire', 'C20.4'),
]
# a flag computed once from a test on bindings stands for that test (in the request and in the guards of the read); `x is None` false == `x is not None` true;
# the budget condition is classified by what it says (sum over the population / every agent below the budget), not by its spelling
VARIANTS += [
    ('off-policy-indices-request-through-flag-ok', 'agilerl/training/train_off_policy.py', '                        else:\n                            experiences = sampler.sample(\n                                agent.batch_size,\n                                return_idx=True if n_step_memory is not None else False,\n                            )\n                            if n_step_memory is not None:\n                                n_step_experiences = n_step_sampler.sample(\n                                    experiences["idxs"]\n                                )\n                                loss, *_ = agent.learn(\n                                    experiences, n_experiences=n_step_experiences\n                                )\n                            else:\n                                loss = agent.learn(experiences)\n                                if isinstance(agent, RainbowDQN):\n                                    loss, *_ = loss\n\n                if loss is not None:', '                        else:\n                            wants_idx = n_step_memory is not None\n                            experiences = sampler.sample(agent.batch_size, return_idx=wants_idx)\n                            if wants_idx:\n                                n_step_experiences = n_step_sampler.sample(\n                                    experiences["idxs"]\n                                )\n                                loss, *_ = agent.learn(\n                                    experiences, n_experiences=n_step_experiences\n                                )\n                            else:\n                                loss = agent.learn(experiences)\n                                if isinstance(agent, RainbowDQN):\n                                    loss, *_ = loss\n\n                if loss is not None:', 'silent', None),
    ('off-policy-indices-flag-in-request-test-in-guard-ok', 'agilerl/training/train_off_policy.py', '                        else:\n                            experiences = sampler.sample(\n                                agent.batch_size,\n                                return_idx=True if n_step_memory is not None else False,\n                            )\n                            if n_step_memory is not None:\n                                n_step_experiences = n_step_sampler.sample(\n                                    experiences["idxs"]\n                                )\n                                loss, *_ = agent.learn(\n                                    experiences, n_experiences=n_step_experiences\n                                )\n                            else:\n                                loss = agent.learn(experiences)\n                                if isinstance(agent, RainbowDQN):\n                                    loss, *_ = loss\n\n                if loss is not None:', '                        else:\n                            wants_idx = n_step_memory is not None\n                            experiences = sampler.sample(agent.batch_size, return_idx=wants_idx)\n                            if n_step_memory is not None:\n                                n_step_experiences = n_step_sampler.sample(\n                                    experiences["idxs"]\n                                )\n                                loss, *_ = agent.learn(\n                                    experiences, n_experiences=n_step_experiences\n                                )\n                            else:\n                                loss = agent.learn(experiences)\n                                if isinstance(agent, RainbowDQN):\n                                    loss, *_ = loss\n\n                if loss is not None:', 'silent', None),
    ('off-policy-indices-test-in-request-flag-in-guard-ok', 'agilerl/training/train_off_policy.py', '                        else:\n                            experiences = sampler.sample(\n                                agent.batch_size,\n                                return_idx=True if n_step_memory is not None else False,\n                            )\n                            if n_step_memory is not None:\n                                n_step_experiences = n_step_sampler.sample(\n                                    experiences["idxs"]\n                                )\n                                loss, *_ = agent.learn(\n                                    experiences, n_experiences=n_step_experiences\n                                )\n                            else:\n                                loss = agent.learn(experiences)\n                                if isinstance(agent, RainbowDQN):\n                                    loss, *_ = loss\n\n                if loss is not None:', '                        else:\n                            wants_idx = n_step_memory is not None\n                            experiences = sampler.sample(agent.batch_size, return_idx=True if n_step_memory is not None else False)\n                            if wants_idx:\n                                n_step_experiences = n_step_sampler.sample(\n                                    experiences["idxs"]\n                                )\n                                loss, *_ = agent.learn(\n                                    experiences, n_experiences=n_step_experiences\n                                )\n                            else:\n                                loss = agent.learn(experiences)\n                                if isinstance(agent, RainbowDQN):\n                                    loss, *_ = loss\n\n                if loss is not None:', 'silent', None),
    ('off-policy-indices-flag-from-the-opposite-test', 'agilerl/training/train_off_policy.py', '                        else:\n                            experiences = sampler.sample(\n                                agent.batch_size,\n                                return_idx=True if n_step_memory is not None else False,\n                            )\n                            if n_step_memory is not None:\n                                n_step_experiences = n_step_sampler.sample(\n                                    experiences["idxs"]\n                                )\n                                loss, *_ = agent.learn(\n                                    experiences, n_experiences=n_step_experiences\n                                )\n                            else:\n                                loss = agent.learn(experiences)\n                                if isinstance(agent, RainbowDQN):\n                                    loss, *_ = loss\n\n                if loss is not None:', '                        else:\n                            wants_idx = n_step_memory is None\n                            experiences = sampler.sample(agent.batch_size, return_idx=wants_idx)\n                            if n_step_memory is not None:\n                                n_step_experiences = n_step_sampler.sample(\n                                    experiences["idxs"]\n                                )\n                                loss, *_ = agent.learn(\n                                    experiences, n_experiences=n_step_experiences\n                                )\n                            else:\n                                loss = agent.learn(experiences)\n                                if isinstance(agent, RainbowDQN):\n                                    loss, *_ = loss\n\n                if loss is not None:', 'fire', 'C20.1'),
    ('off-policy-indices-flag-of-another-buffer', 'agilerl/training/train_off_policy.py', '                        else:\n                            experiences = sampler.sample(\n                                agent.batch_size,\n                                return_idx=True if n_step_memory is not None else False,\n                            )\n                            if n_step_memory is not None:\n                                n_step_experiences = n_step_sampler.sample(\n                                    experiences["idxs"]\n                                )\n                                loss, *_ = agent.learn(\n                                    experiences, n_experiences=n_step_experiences\n                                )\n                            else:\n                                loss = agent.learn(experiences)\n                                if isinstance(agent, RainbowDQN):\n                                    loss, *_ = loss\n\n                if loss is not None:', '                        else:\n                            wants_idx = memory is not None\n                            experiences = sampler.sample(agent.batch_size, return_idx=wants_idx)\n                            if n_step_memory is not None:\n                                n_step_experiences = n_step_sampler.sample(\n                                    experiences["idxs"]\n                                )\n                                loss, *_ = agent.learn(\n                                    experiences, n_experiences=n_step_experiences\n                                )\n                            else:\n                                loss = agent.learn(experiences)\n                                if isinstance(agent, RainbowDQN):\n                                    loss, *_ = loss\n\n                if loss is not None:', 'fire', 'C20.1'),
    ('off-policy-indices-flag-from-a-truth-test', 'agilerl/training/train_off_policy.py', '                        else:\n                            experiences = sampler.sample(\n                                agent.batch_size,\n                                return_idx=True if n_step_memory is not None else False,\n                            )\n                            if n_step_memory is not None:\n                                n_step_experiences = n_step_sampler.sample(\n                                    experiences["idxs"]\n                                )\n                                loss, *_ = agent.learn(\n                                    experiences, n_experiences=n_step_experiences\n                                )\n                            else:\n                                loss = agent.learn(experiences)\n                                if isinstance(agent, RainbowDQN):\n                                    loss, *_ = loss\n\n                if loss is not None:', '                        else:\n                            wants_idx = bool(pop_loss)\n                            experiences = sampler.sample(agent.batch_size, return_idx=wants_idx)\n                            if n_step_memory is not None:\n                                n_step_experiences = n_step_sampler.sample(\n                                    experiences["idxs"]\n                                )\n                                loss, *_ = agent.learn(\n                                    experiences, n_experiences=n_step_experiences\n                                )\n                            else:\n                                loss = agent.learn(experiences)\n                                if isinstance(agent, RainbowDQN):\n                                    loss, *_ = loss\n\n                if loss is not None:', 'fire', 'C20.1'),
    ('off-policy-indices-flag-stale-after-rebinding', 'agilerl/training/train_off_policy.py', '                        else:\n                            experiences = sampler.sample(\n                                agent.batch_size,\n                                return_idx=True if n_step_memory is not None else False,\n                            )\n                            if n_step_memory is not None:\n                                n_step_experiences = n_step_sampler.sample(\n                                    experiences["idxs"]\n                                )\n                                loss, *_ = agent.learn(\n                                    experiences, n_experiences=n_step_experiences\n                                )\n                            else:\n                                loss = agent.learn(experiences)\n                                if isinstance(agent, RainbowDQN):\n                                    loss, *_ = loss\n\n                if loss is not None:', '                        else:\n                            wants_idx = n_step_memory is not None\n                            if agent.batch_size > 1:\n                                n_step_memory = n_step_sampler.memory\n                            experiences = sampler.sample(agent.batch_size, return_idx=wants_idx)\n                            if n_step_memory is not None:\n                                n_step_experiences = n_step_sampler.sample(\n                                    experiences["idxs"]\n                                )\n                                loss, *_ = agent.learn(\n                                    experiences, n_experiences=n_step_experiences\n                                )\n                            else:\n                                loss = agent.learn(experiences)\n                                if isinstance(agent, RainbowDQN):\n                                    loss, *_ = loss\n\n                if loss is not None:', 'fire', 'C20.1'),
    ('off-policy-indices-read-on-the-else-arm-of-is-none-ok', 'agilerl/training/train_off_policy.py', '                        else:\n                            experiences = sampler.sample(\n                                agent.batch_size,\n                                return_idx=True if n_step_memory is not None else False,\n                            )\n                            if n_step_memory is not None:\n                                n_step_experiences = n_step_sampler.sample(\n                                    experiences["idxs"]\n                                )\n                                loss, *_ = agent.learn(\n                                    experiences, n_experiences=n_step_experiences\n                                )\n                            else:\n                                loss = agent.learn(experiences)\n                                if isinstance(agent, RainbowDQN):\n                                    loss, *_ = loss\n\n                if loss is not None:', '                        else:\n                            experiences = sampler.sample(agent.batch_size, return_idx=n_step_memory is not None)\n                            if n_step_memory is None:\n                                loss = agent.learn(experiences)\n                                if isinstance(agent, RainbowDQN):\n                                    loss, *_ = loss\n                            else:\n                                n_step_experiences = n_step_sampler.sample(\n                                    experiences["idxs"]\n                                )\n                                loss, *_ = agent.learn(\n                                    experiences, n_experiences=n_step_experiences\n                                )\n\n                if loss is not None:', 'silent', None),
    ('off-policy-indices-read-on-the-is-none-arm', 'agilerl/training/train_off_policy.py', '                        else:\n                            experiences = sampler.sample(\n                                agent.batch_size,\n                                return_idx=True if n_step_memory is not None else False,\n                            )\n                            if n_step_memory is not None:\n                                n_step_experiences = n_step_sampler.sample(\n                                    experiences["idxs"]\n                                )\n                                loss, *_ = agent.learn(\n                                    experiences, n_experiences=n_step_experiences\n                                )\n                            else:\n                                loss = agent.learn(experiences)\n                                if isinstance(agent, RainbowDQN):\n                                    loss, *_ = loss\n\n                if loss is not None:', '                        else:\n                            experiences = sampler.sample(agent.batch_size, return_idx=n_step_memory is not None)\n                            if n_step_memory is None:\n                                n_step_experiences = n_step_sampler.sample(\n                                    experiences["idxs"]\n                                )\n                                loss, *_ = agent.learn(\n                                    experiences, n_experiences=n_step_experiences\n                                )\n                            else:\n                                loss = agent.learn(experiences)\n                                if isinstance(agent, RainbowDQN):\n                                    loss, *_ = loss\n\n                if loss is not None:', 'fire', 'C20.1'),
    ('off-budget-all-of-comparisons-ok', 'agilerl/training/train_off_policy.py', '    while np.less([agent.steps[-1] for agent in pop], max_steps).all():', '    while all(agent.steps[-1] < max_steps for agent in pop):', 'silent', None),
    ('off-budget-no-agent-at-the-budget-ok', 'agilerl/training/train_off_policy.py', '    while np.less([agent.steps[-1] for agent in pop], max_steps).all():', '    while not any([max_steps <= agent.steps[-1] for agent in pop]):', 'silent', None),
    ('off-budget-elementwise-comparison-ok', 'agilerl/training/train_off_policy.py', '    while np.less([agent.steps[-1] for agent in pop], max_steps).all():', '    while (np.array([agent.steps[-1] for agent in pop]) < max_steps).all():', 'silent', None),
    ('off-budget-largest-counter-ok', 'agilerl/training/train_off_policy.py', '    while np.less([agent.steps[-1] for agent in pop], max_steps).all():', '    while max(agent.steps[-1] for agent in pop) < max_steps:', 'silent', None),
    ('off-budget-any-of-comparisons', 'agilerl/training/train_off_policy.py', '    while np.less([agent.steps[-1] for agent in pop], max_steps).all():', '    while any(agent.steps[-1] < max_steps for agent in pop):', 'fire', 'C20.4'),
    ('off-budget-all-at-or-below', 'agilerl/training/train_off_policy.py', '    while np.less([agent.steps[-1] for agent in pop], max_steps).all():', '    while all(agent.steps[-1] <= max_steps for agent in pop):', 'fire', 'C20.4'),
    ('off-budget-all-of-part-of-the-population', 'agilerl/training/train_off_policy.py', '    while np.less([agent.steps[-1] for agent in pop], max_steps).all():', '    while all(agent.steps[-1] < max_steps for agent in pop[:1]):', 'fire', 'C20.4'),
    ('off-budget-not-all-at-the-budget', 'agilerl/training/train_off_policy.py', '    while np.less([agent.steps[-1] for agent in pop], max_steps).all():', '    while not all(agent.steps[-1] >= max_steps for agent in pop):', 'fire', 'C20.4'),
    ('off-budget-sum-where-per-agent-is-documented', 'agilerl/training/train_off_policy.py', '    while np.less([agent.steps[-1] for agent in pop], max_steps).all():', '    while sum(agent.steps[-1] for agent in pop) < max_steps:', 'fire', 'C20.4'),
    ('ma-on-budget-sum-as-builtin-ok', 'agilerl/training/train_multi_agent_on_policy.py', '    while np.sum([agent.steps[-1] for agent in pop]) < max_steps:', '    while not (sum(agent.steps[-1] for agent in pop) >= max_steps):', 'silent', None),
    ('ma-on-budget-per-agent-where-sum-is-documented', 'agilerl/training/train_multi_agent_on_policy.py', '    while np.sum([agent.steps[-1] for agent in pop]) < max_steps:', '    while all(agent.steps[-1] < max_steps for agent in pop):', 'fire', 'C20.4'),
]
