"""Library summaries the analysis relies on, with provenance.

Where the answer lives in an installed pure-Python source, the summary is re-derived from that
source (statically) on every run; otherwise it is trusted base and listed in the evidence.
"""
from __future__ import annotations

import ast
import glob
import os
from typing import Dict, Optional, Tuple

from .core import call_name, walk_no_nested

_SITE = None


def site_packages() -> Optional[str]:
    global _SITE
    if _SITE is None:
        hits = sorted(glob.glob("/venv/lib/python3*/site-packages"))
        _SITE = hits[0] if hits else ""
    return _SITE or None


def _find_method(path: str, cls: str, meth: str) -> Optional[ast.FunctionDef]:
    try:
        with open(path) as fh:
            tree = ast.parse(fh.read())
    except (OSError, SyntaxError):
        return None
    for n in tree.body:
        if isinstance(n, ast.ClassDef) and n.name == cls:
            for m in n.body:
                if isinstance(m, ast.FunctionDef) and m.name == meth:
                    return m
    return None


def torch_optimizer_load_copies_state() -> Tuple[bool, str]:
    """Does torch.optim.Optimizer.load_state_dict deep-copy the *state tensors* it is given?

    Re-derived from the installed source: True only if the whole `state_dict` parameter is passed
    to deepcopy.  (torch 2.x: `state_dict = state_dict.copy()` — shallow — and state values are
    passed through `.to()` which returns the same tensor when dtype/device already match.)
    """
    sp = site_packages()
    if not sp:
        return False, "torch source not found; assuming load_state_dict retains the given tensors (conservative)"
    m = _find_method(os.path.join(sp, "torch", "optim", "optimizer.py"), "Optimizer", "load_state_dict")
    if m is None:
        return False, "Optimizer.load_state_dict not found in installed torch; assuming tensors are retained"
    param = m.args.args[1].arg if len(m.args.args) > 1 else "state_dict"
    for n in walk_no_nested(m):
        if isinstance(n, ast.Call) and call_name(n).split(".")[-1] == "deepcopy" and n.args:
            a = n.args[0]
            if isinstance(a, ast.Name) and a.id == param:
                return True, "installed torch deep-copies the whole state_dict in Optimizer.load_state_dict"
    return False, (
        "re-derived from installed torch/optim/optimizer.py: Optimizer.load_state_dict only shallow-copies "
        "the dict (`state_dict.copy()`), state tensors are retained by reference"
    )


TRUSTED = {
    "nn.Module.load_state_dict": "copies values into the existing parameter storage (C++ copy_), does not retain the source tensors",
    "Tensor.clone / copy.deepcopy(tensor)": "allocate new storage",
    "Optimizer.state_dict": "returns references to the live state tensors (packed by index)",
    "Tensor.copy_": "writes in place into the receiver's storage",
    "advanced (tensor/list) indexing": "returns a copy, basic slicing returns a view",
}
