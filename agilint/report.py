"""Obligation bookkeeping, evidence files, known findings, replay files."""
from __future__ import annotations

import json
import os
import time
from dataclasses import dataclass, field, asdict
from typing import Any, Dict, List, Optional

from .core import AnalysisError, Fn, digest, short, unparse

VERIF = os.path.dirname(os.path.dirname(os.path.abspath(__file__)))
KNOWN = os.path.join(VERIF, "known_findings.json")


@dataclass
class Obligation:
    rule: str
    file: str
    qualname: str
    line: int
    construct: str  # normalised text of the construct the obligation is about
    what: str  # the obligation in words
    status: str  # discharged | violated | known
    detail: str = ""

    def key(self) -> str:
        return "|".join([self.rule, self.file, self.qualname, " ".join(self.construct.split())])


class Check:
    def __init__(self, prop: str, tier: str, repo_root: str):
        from . import pat

        pat.reset()  # pattern environments are per analysis run (keyed by tree identity)
        self.prop = prop
        self.tier = tier
        self.repo_root = repo_root
        self.obs: List[Obligation] = []
        self.rules: Dict[str, str] = {}
        self.analysed: Dict[str, Any] = {}
        self.trusted: List[str] = []
        self.assumptions: List[str] = []
        self.not_decided: List[str] = []
        self.t0 = time.time()
        self.known = self._load_known()
        self.extra: Dict[str, Any] = {}

    # ------------------------------------------------------------------ known findings
    def _load_known(self) -> List[dict]:
        if not os.path.exists(KNOWN):
            return []
        with open(KNOWN) as fh:
            data = json.load(fh)
        return [e for e in data.get("findings", []) if e.get("property") == self.prop]

    def _known_entry(self, ob: Obligation) -> Optional[dict]:
        for e in self.known:
            if e.get("status", "open") != "open":
                continue  # a "fixed" entry suppresses nothing
            if (
                e.get("rule") == ob.rule
                and e.get("file") == ob.file
                and e.get("qualname") == ob.qualname
                and " ".join(e.get("construct", "").split()) == " ".join(ob.construct.split())
            ):
                return e
        return None

    # ------------------------------------------------------------------ recording
    def rule(self, rid: str, text: str) -> None:
        self.rules[rid] = text

    def ob(
        self,
        rule: str,
        fn: Optional[Fn],
        node: Any,
        ok: bool,
        what: str,
        detail: str = "",
        construct: Optional[str] = None,
        file: Optional[str] = None,
        qualname: Optional[str] = None,
    ) -> bool:
        if rule not in self.rules:
            raise AnalysisError(f"rule {rule} used but not declared")
        f = file if file is not None else (fn.mod.rel if fn is not None else "")
        q = qualname if qualname is not None else (fn.qualname if fn is not None else "")
        line = getattr(node, "lineno", 0) if node is not None and not isinstance(node, str) else (
            fn.node.lineno if fn is not None else 0
        )
        if construct is None:
            construct = node if isinstance(node, str) else short(node, 300)
        o = Obligation(rule, f, q, line, construct, what, "discharged" if ok else "violated", detail)
        if not ok and self._known_entry(o) is not None:
            o.status = "known"
        self.obs.append(o)
        return ok

    def floor(self, rule: str, found: int, minimum: int, what: str, fn: Optional[Fn] = None) -> None:
        """Instance floor: fewer sites than confirmed by hand means the rule lost its anchor (analysis error).
        With `fn` given the sites are a *required mechanism inside a located function*: their absence is a violation
        of the rule (the function is there, the mechanism is not), reported against that function."""
        if fn is not None:
            self.ob(rule, fn, fn.node, found >= minimum, f"{fn.qualname} contains the mechanism this rule is about: {what} (at least {minimum})",
                    detail=f"found {found}; the located function no longer contains it, so the property's mechanism is missing on this path",
                    construct=f"{fn.qualname}: required {what}")
            self.analysed.setdefault("instance_counts", {})[f"{rule}: {what}"] = found
            return
        if found < minimum:
            raise AnalysisError(
                f"{rule}: found {found} {what}, fewer than the {minimum} confirmed by reading — "
                f"the rule no longer matches the code it was written for"
            )
        self.analysed.setdefault("instance_counts", {})[f"{rule}: {what}"] = found

    def note(self, key: str, value: Any) -> None:
        self.analysed[key] = value

    # ------------------------------------------------------------------ finishing
    def finish(self) -> int:
        wall = time.time() - self.t0
        viol = [o for o in self.obs if o.status == "violated"]
        known = [o for o in self.obs if o.status == "known"]
        disch = [o for o in self.obs if o.status == "discharged"]
        if not self.obs:
            raise AnalysisError("no obligations were generated")
        os.makedirs(os.path.join(VERIF, "evidence", "replay"), exist_ok=True)
        per_rule: Dict[str, Dict[str, int]] = {}
        for o in self.obs:
            d = per_rule.setdefault(o.rule, {"obligations": 0, "discharged": 0, "violated": 0, "known": 0})
            d["obligations"] += 1
            d[o.status if o.status != "discharged" else "discharged"] += 1
        samples = []
        seen_rules = set()
        for o in self.obs:
            if o.rule in seen_rules and o.status == "discharged":
                continue
            seen_rules.add(o.rule)
            samples.append(
                {
                    "rule": o.rule,
                    "site": f"{o.file}:{o.line} ({o.qualname})",
                    "construct": o.construct[:240],
                    "obligation": o.what,
                    "status": o.status,
                    **({"detail": o.detail[:400]} if o.detail else {}),
                }
            )
        replay_paths = []
        for o in viol:
            rp = os.path.join(VERIF, "evidence", "replay", f"{self.prop}-{digest(o.key())}.json")
            with open(rp, "w") as fh:
                json.dump({"property": self.prop, **asdict(o), "rule_text": self.rules.get(o.rule, "")}, fh, indent=1)
            replay_paths.append(rp)
        distinct = len({o.key() for o in self.obs})
        ev = {
            "property_id": self.prop,
            "tier": self.tier,
            "seed": int(os.environ.get("VERIF_SEED", "0") or 0),
            "level": "other",
            "coverage": {
                "explanation": (
                    "Static analysis of /repo's working tree (ast only, nothing executed): every rule below is "
                    "instantiated at every site it matches and each instance (obligation) is decided. "
                    "Decided clauses are structural necessary conditions of the property; the behavioural "
                    "remainder listed under not_decided is not claimed."
                ),
                "obligations": len(self.obs),
                "discharged": len(disch),
                "violated": len(viol),
                "known_findings": len(known),
                "evaluations": len(self.obs),
                "distinct_nontrivial": distinct,
                "rule": "one obligation per (rule, site); distinct = distinct (rule, file, function, construct) keys; "
                "all are non-trivial in that each names a concrete construct of the current tree",
                "exhaustive": True,
                "rules": self.rules,
                "per_rule": per_rule,
                "samples": samples[:60],
                "analysed": self.analysed,
                "not_decided": self.not_decided,
                "trusted_base": self.trusted,
                "all_obligations": [
                    {"rule": o.rule, "site": f"{o.file}:{o.line} ({o.qualname})", "construct": o.construct[:160], "status": o.status}
                    for o in self.obs
                ],
                **self.extra,
            },
            "assumptions": self.assumptions,
            "wall_s": round(wall, 3),
            "violations": len(viol),
        }
        if os.environ.get("AGILINT_NO_EVIDENCE") != "1":  # scratch-copy runs of the seed regression (tools/run_all_seeds_par.sh) leave the evidence of /repo alone
            with open(os.path.join(VERIF, "evidence", f"{self.prop}.json"), "w") as fh:
                json.dump(ev, fh, indent=1)
        print(
            f"[{self.prop}] tier={self.tier} rules={len(self.rules)} obligations={len(self.obs)} "
            f"discharged={len(disch)} known={len(known)} violated={len(viol)} wall={wall:.2f}s"
        )
        for rid in sorted(per_rule):
            d = per_rule[rid]
            print(f"  {rid}: {d['obligations']} obligations, {d['discharged']} discharged — {self.rules[rid]}")
        for o in known:
            print(
                f"KNOWN-FINDING: property={self.prop} {o.rule} {o.file}:{o.line} ({o.qualname}) "
                f"`{short_text(o.construct)}` — {o.what}; {o.detail}"
            )
        for o, rp in zip(viol, replay_paths):
            print(f"VIOLATION property={self.prop} replay={rp}")
            print(f"  rule {o.rule}: {self.rules.get(o.rule, '')}")
            print(f"  at {o.file}:{o.line} in {o.qualname}: `{short_text(o.construct)}`")
            print(f"  obligation: {o.what}")
            if o.detail:
                print(f"  diagnosis: {o.detail}")
        return 1 if viol else 0


def short_text(s: str, n: int = 140) -> str:
    s = " ".join(s.split())
    return s if len(s) <= n else s[: n - 3] + "..."
