"""Term builder: expressions -> polynomial normal form over opaque atoms with origin tags.

A root expression is rewritten by substituting local names with their reaching definitions
(unique definition -> substitution; several -> Phi atom; loop-carried -> Rec atom), stripping
value-neutral tensor adapters, binding callee parameters to the arguments of the call sites in the
same class (zip / enumerate / tuple-unpack aware), and normalising arithmetic to a sum of monomials
with rational coefficients.  Atoms carry *origins* computed from def-use (never from names):
attribute reads, parameters, experience roles (by key or tuple position), calls.
"""
from __future__ import annotations

import ast
from dataclasses import dataclass, field
from fractions import Fraction
from typing import Callable, Dict, FrozenSet, Iterable, List, Optional, Set, Tuple

from .cfg import CFG, Node
from .core import AnalysisError, Cls, Fn, Repo, call_name, calls_in, dotted, last_attr, short, walk_no_nested

Mono = Tuple[Tuple[str, int], ...]

ROLE_BY_KEY = {
    "obs": "obs", "state": "obs", "states": "obs", "observation": "obs",
    "action": "action", "actions": "action",
    "reward": "reward", "rewards": "reward",
    "next_obs": "next_obs", "next_state": "next_obs", "next_states": "next_obs",
    "done": "done", "dones": "done", "terminated": "done",
}
ROLE_BY_POS5 = ["obs", "action", "reward", "next_obs", "done"]
# on-policy rollouts: (states, actions, log_probs, rewards, dones, values, next_state, next_done)
ROLE_BY_POS8 = ["obs", "action", "log_prob", "reward", "done", "value", "next_obs", "next_done"]
# helpers that only re-pack a batch (stack / regroup per agent): experience roles pass through them
BATCH_ADAPTERS = {"stack_experiences", "vectorize_experiences_by_agent", "stack_and_pad_experiences", "map"}

# method calls that do not change the value (for the purposes of the formulae checked)
ADAPTER_METHODS = {
    "detach", "float", "to", "cpu", "cuda", "clone", "squeeze", "unsqueeze", "view", "reshape", "item", "type",
    "long", "int", "double", "bool", "contiguous", "numpy", "flatten", "expand", "view_as", "type_as", "half",
}
ADAPTER_ATTRS = {"data"}
ADAPTER_FUNCS = {"torch.as_tensor", "torch.tensor", "torch.from_numpy", "np.asarray", "np.array", "float", "int",
                 "torch.Tensor", "torch.squeeze", "torch.unsqueeze"}
NOGRAD_MARK = "#ng"


@dataclass
class Atom:
    key: str
    kind: str
    origins: FrozenSet[str]
    node: Optional[ast.AST] = None
    sub: Tuple["Poly", ...] = ()
    name: str = ""  # callee / attribute name where applicable
    nograd: bool = False


class Poly:
    __slots__ = ("t",)

    def __init__(self, t: Optional[Dict[Mono, Fraction]] = None):
        self.t: Dict[Mono, Fraction] = {m: c for m, c in (t or {}).items() if c != 0}

    # construction
    @staticmethod
    def const(c) -> "Poly":
        return Poly({(): Fraction(c)})

    @staticmethod
    def atom(key: str) -> "Poly":
        return Poly({((key, 1),): Fraction(1)})

    def __add__(self, o: "Poly") -> "Poly":
        r = dict(self.t)
        for m, c in o.t.items():
            r[m] = r.get(m, 0) + c
        return Poly(r)

    def __neg__(self) -> "Poly":
        return Poly({m: -c for m, c in self.t.items()})

    def __sub__(self, o: "Poly") -> "Poly":
        return self + (-o)

    def __mul__(self, o: "Poly") -> "Poly":
        r: Dict[Mono, Fraction] = {}
        for m1, c1 in self.t.items():
            for m2, c2 in o.t.items():
                d: Dict[str, int] = {}
                for k, e in m1 + m2:
                    d[k] = d.get(k, 0) + e
                m = tuple(sorted((k, e) for k, e in d.items() if e != 0))
                r[m] = r.get(m, 0) + c1 * c2
        return Poly(r)

    def inv(self) -> Optional["Poly"]:
        """1/self when self is a single monomial."""
        if len(self.t) != 1:
            return None
        (m, c), = self.t.items()
        return Poly({tuple((k, -e) for k, e in m): 1 / c})

    def pow(self, n: int) -> Optional["Poly"]:
        if n >= 0:
            r = Poly.const(1)
            for _ in range(n):
                r = r * self
            return r
        i = self.inv()
        return i.pow(-n) if i is not None else None

    def is_const(self) -> bool:
        return all(m == () for m in self.t)

    def const_value(self) -> Optional[Fraction]:
        if not self.t:
            return Fraction(0)
        if self.is_const():
            return self.t[()]
        return None

    def atoms(self) -> Set[str]:
        return {k for m in self.t for k, _ in m}

    def subst(self, mapping: Dict[str, "Poly"]) -> "Poly":
        r = Poly()
        for m, c in self.t.items():
            p = Poly.const(c)
            for k, e in m:
                base = mapping.get(k)
                if base is None:
                    base = Poly.atom(k)
                if e >= 0:
                    q = base.pow(e)
                else:
                    q = base.pow(e)
                    if q is None:
                        q = Poly({((k, e),): Fraction(1)})
                p = p * q
            r = r + p
        return r

    def key(self) -> str:
        parts = []
        for m in sorted(self.t):
            c = self.t[m]
            mon = "*".join(k if e == 1 else f"{k}^{e}" for k, e in m) or "1"
            parts.append(f"{c}*{mon}" if c != 1 or not m else mon)
        return " + ".join(parts) if parts else "0"

    def __eq__(self, o: object) -> bool:
        return isinstance(o, Poly) and self.t == o.t

    def __hash__(self) -> int:  # pragma: no cover
        return hash(self.key())

    def __repr__(self) -> str:
        return self.key()


class TermBuilder:
    """Builds terms for expressions of one function; shares an atom table across functions of
    the same analysis through `atoms` when handed one."""

    def __init__(self, repo: Repo, fn: Fn, atoms: Optional[Dict[str, Atom]] = None, depth: int = 2,
                 cfg: Optional[CFG] = None, _stack: Tuple[str, ...] = ()):
        self.repo = repo
        self.fn = fn
        self.cfg = cfg or CFG(fn.node)
        self.atoms: Dict[str, Atom] = atoms if atoms is not None else {}
        self.depth = depth
        self._stack = _stack + (fn.qualname,)
        self._memo: Dict[Tuple[int, int], Poly] = {}
        self._nograd_cache: Dict[int, bool] = {}
        self._param_cache: Dict[str, Poly] = {}
        self.selfname = fn.params[0] if fn.cls is not None and fn.params and not fn.has_decorator("staticmethod") else None

    # ------------------------------------------------------------------ atoms
    def mk(self, key: str, kind: str, origins: Iterable[str], node=None, sub=(), name="", nograd=False) -> Poly:
        if nograd:
            key = key + NOGRAD_MARK
        if key not in self.atoms:
            self.atoms[key] = Atom(key, kind, frozenset(origins), node, tuple(sub), name, nograd)
        return Poly.atom(key)

    def origins(self, p: Poly) -> Set[str]:
        out: Set[str] = set()
        for k in p.atoms():
            a = self.atoms.get(k)
            if a is not None:
                out |= a.origins
        return out

    def roles(self, p: Poly) -> Set[str]:
        return {o[5:] for o in self.origins(p) if o.startswith("role:")}

    def atom(self, key: str) -> Atom:
        return self.atoms[key]

    # ------------------------------------------------------------------ helpers
    def strip_updates(self, p: Poly, _d: int = 0) -> Poly:
        """Container identity for metadata (shape/device): element updates and loop-carried
        re-bindings of the same container do not change it."""
        a = single_atom(self, p)
        if a is None or _d > 8:
            return p
        if a.kind == "upd" and a.sub:
            return self.strip_updates(a.sub[0], _d + 1)
        if a.kind == "phi":
            alts = []
            for s_ in a.sub:
                r = self.strip_updates(s_, _d + 1)
                ra = single_atom(self, r)
                if ra is not None and ra.kind == "rec":
                    continue
                if r not in alts:
                    alts.append(r)
            if len(alts) == 1:
                return alts[0]
        return p

    def _reach(self, n: Node) -> Set[int]:
        cache = self.__dict__.setdefault("_reach_cache", {})
        if n.id not in cache:
            cache[n.id] = self.cfg.reachable_from(n)
        return cache[n.id]

    def _fwd(self, n: Node) -> Set[int]:
        """Nodes reachable from n without taking a back edge (u -> v with v dominating u)."""
        cache = self.__dict__.setdefault("_fwd_cache", {})
        if n.id not in cache:
            seen: Set[int] = set()
            st = [n]
            first = True
            while st:
                u = st.pop()
                if u.id in seen and not first:
                    continue
                if not first:
                    seen.add(u.id)
                first = False
                for v in u.succ:
                    if self.cfg.dominates(v, u):
                        continue  # back edge
                    if v.id not in seen:
                        st.append(v)
            cache[n.id] = seen
        return cache[n.id]

    def _loops(self) -> List[Set[int]]:
        """Natural loops (node-id sets), one per back edge u -> h (h dominates u)."""
        cache = self.__dict__.get("_loops_cache")
        if cache is None:
            by_header: Dict[int, Set[int]] = {}
            for u in self.cfg.live_nodes():
                for h in u.succ:
                    if self.cfg.dominates(h, u):
                        body = by_header.setdefault(h.id, {h.id})
                        body.add(u.id)
                        st = [u]
                        while st:
                            x = st.pop()
                            if x is h:
                                continue
                            for p in x.pred:
                                if p.id not in body:
                                    body.add(p.id)
                                    st.append(p)
            cache = list(by_header.values())
            self.__dict__["_loops_cache"] = cache
        return cache

    def _loop_carried(self, d: Node, at: Node) -> bool:
        """Does the value defined at d reach `at` only around a loop back edge?"""
        if d is at:
            return any(d.id in L for L in self._loops())
        common = [L for L in self._loops() if d.id in L and at.id in L]
        if not common:
            return False
        return at.id not in self._fwd(d)

    def in_nograd(self, node: Node) -> bool:
        """Is the CFG node lexically inside `with torch.no_grad()` (or inference_mode)?"""
        if getattr(self, "_under_nograd", False):
            return True
        s = node.stmt if node.stmt is not None else node.ast
        if s is None:
            return False
        if id(s) in self._nograd_cache:
            return self._nograd_cache[id(s)]
        res = False
        for w in ast.walk(self.fn.node):
            if isinstance(w, (ast.With, ast.AsyncWith)):
                if any(isinstance(it.context_expr, ast.Call) and call_name(it.context_expr).split(".")[-1] in ("no_grad", "inference_mode")
                       for it in w.items):
                    for x in ast.walk(w):
                        if x is s and x is not w:
                            res = True
        if not res:
            for d in self.fn.node.decorator_list:
                dd = d.func if isinstance(d, ast.Call) else d
                if dotted(dd).split(".")[-1] in ("no_grad", "inference_mode"):
                    res = True
        self._nograd_cache[id(s)] = res
        return res

    def _mark_nograd(self, p: Poly) -> Poly:
        """Return p with every call atom replaced by its no-grad twin."""
        mapping = {}
        for k in p.atoms():
            a = self.atoms.get(k)
            if a is not None and a.kind in ("call", "idx", "phi") and not a.nograd:
                nk = k + NOGRAD_MARK
                if nk not in self.atoms:
                    self.atoms[nk] = Atom(nk, a.kind, a.origins, a.node, a.sub, a.name, True)
                mapping[k] = Poly.atom(nk)
        return p.subst(mapping) if mapping else p

    # ------------------------------------------------------------------ main entry
    def term(self, e: ast.AST, at: Node, _seen: Optional[Set[Tuple[str, int]]] = None) -> Poly:
        _seen = _seen or set()
        t = self._term(e, at, _seen)
        return t

    def _opaque(self, e: ast.AST, at: Node, _seen, kind="opaque") -> Poly:
        subs = []
        orig: Set[str] = set()
        for c in ast.iter_child_nodes(e):
            if isinstance(c, ast.expr):
                p = self._term(c, at, _seen)
                subs.append(p)
                orig |= self.origins(p)
        key = f"{type(e).__name__}({','.join(s.key() for s in subs)})" if subs else f"{type(e).__name__}:{short(e, 60)}"
        return self.mk(key, kind, orig, e, subs)

    def _term(self, e: ast.AST, at: Node, _seen) -> Poly:
        if isinstance(e, ast.Constant):
            if isinstance(e.value, bool):
                return Poly.const(int(e.value))
            if isinstance(e.value, (int, float)):
                return Poly.const(Fraction(str(e.value)))
            return self.mk(f"const:{e.value!r}", "const", [], e)
        if isinstance(e, ast.Name):
            return self._name(e, at, _seen)
        if isinstance(e, ast.Attribute):
            if e.attr in ADAPTER_ATTRS:
                return self._term(e.value, at, _seen)
            d = dotted(e)
            if "?" not in d:
                root = d.split(".")[0]
                if self.selfname and root == self.selfname:
                    # local redefinition of self.attr inside this function?
                    defs = self.cfg.defs_reaching(at, d)
                    if defs and all(dn.kind == "stmt" for dn in defs) and len(defs) == 1 and self.cfg.dominates(defs[0], at) \
                            and defs[0] is not at:
                        v = self.cfg.value_of_def(defs[0], d)
                        if v is not None and (d, defs[0].id) not in _seen and not isinstance(defs[0].ast, ast.AugAssign):
                            return self._term(v, defs[0], _seen | {(d, defs[0].id)})
                    # simple @property (single return expression): substitute its body
                    if self.fn.cls is not None and d.count(".") == 1 and self.depth >= 0 and len(self._stack) < 4:
                        prop = self.repo.find_method(self.fn.cls, d.split(".")[1])
                        if prop is not None and prop.has_decorator("property") and prop.qualname not in self._stack:
                            body = [b for b in prop.node.body if not (isinstance(b, ast.Expr) and isinstance(b.value, ast.Constant))]
                            if len(body) == 1 and isinstance(body[0], ast.Return) and body[0].value is not None:
                                sub = TermBuilder(self.repo, prop, self.atoms, self.depth, _stack=self._stack)
                                rn = sub.cfg.node_of(body[0])
                                if rn is not None:
                                    return sub.term(body[0].value, rn)
                    return self.mk(f"attr:{d}", "attr", [f"attr:{d}"], e, name=d)
                base = self._name(ast.Name(id=root, ctx=ast.Load()), at, _seen)
                rest = d.split(".", 1)[1]
                if rest in ("shape", "device", "dtype", "ndim"):
                    base = self.strip_updates(base)
                    return self.mk(f"meta:{base.key()}.{rest}", "meta", [], e)
                return self.mk(f"attrof:{base.key()}.{rest}", "attrof", self.origins(base) | {f"field:{rest}"}, e, [base], name=rest)
            base = self._term(e.value, at, _seen)
            return self.mk(f"attrof:{base.key()}.{e.attr}", "attrof", self.origins(base) | {f"field:{e.attr}"}, e, [base], name=e.attr)
        if isinstance(e, ast.UnaryOp):
            if isinstance(e.op, ast.USub):
                return -self._term(e.operand, at, _seen)
            if isinstance(e.op, ast.UAdd):
                return self._term(e.operand, at, _seen)
            if isinstance(e.op, (ast.Invert, ast.Not)):
                return Poly.const(1) - self._term(e.operand, at, _seen)
        if isinstance(e, ast.BinOp):
            a = self._term(e.left, at, _seen)
            b = self._term(e.right, at, _seen)
            if isinstance(e.op, ast.Add):
                return a + b
            if isinstance(e.op, ast.Sub):
                return a - b
            if isinstance(e.op, ast.Mult):
                return a * b
            if isinstance(e.op, ast.Div):
                i = b.inv()
                if i is not None:
                    return a * i
                bk = self.mk(f"({b.key()})", "group", self.origins(b), e.right, [b])
                return a * bk.inv()  # type: ignore[operator]
            if isinstance(e.op, ast.Pow):
                cv = b.const_value()
                if cv is not None and cv.denominator == 1 and abs(int(cv)) <= 6:
                    r = a.pow(int(cv))
                    if r is not None:
                        return r
                return self.mk(f"pow({a.key()},{b.key()})", "pow", self.origins(a) | self.origins(b), e, [a, b])
            if isinstance(e.op, ast.MatMult):
                return self.mk(f"matmul({a.key()},{b.key()})", "matmul", self.origins(a) | self.origins(b), e, [a, b])
            return self.mk(f"{type(e.op).__name__}({a.key()},{b.key()})", "binop", self.origins(a) | self.origins(b), e, [a, b],
                           name=type(e.op).__name__)
        if isinstance(e, ast.Compare) and len(e.ops) == 1:
            a = self._term(e.left, at, _seen)
            b = self._term(e.comparators[0], at, _seen)
            if isinstance(e.ops[0], ast.Eq) and b.const_value() == 0:
                return Poly.const(1) - a  # f == 0  ->  1 - f   (flags)
            return self.mk(f"cmp:{type(e.ops[0]).__name__}({a.key()},{b.key()})", "cmp", self.origins(a) | self.origins(b), e, [a, b],
                           name=type(e.ops[0]).__name__)
        if isinstance(e, ast.Subscript):
            return self._subscript(e, at, _seen)
        if isinstance(e, ast.Call):
            return self._call(e, at, _seen)
        if isinstance(e, ast.IfExp):
            a = self._term(e.body, at, _seen)
            b = self._term(e.orelse, at, _seen)
            if a == b:
                return a
            c = self._term(e.test, at, _seen)
            return self._phi([a, b], e, cond=c)
        if isinstance(e, (ast.Tuple, ast.List)):
            subs = [self._term(x, at, _seen) for x in e.elts]
            o: Set[str] = set()
            for s in subs:
                o |= self.origins(s)
            return self.mk(f"seq({','.join(s.key() for s in subs)})", "seq", o, e, subs)
        if isinstance(e, (ast.ListComp, ast.GeneratorExp, ast.SetComp, ast.DictComp)):
            o = set()
            subs = []
            for g in e.generators:
                p = self._term(g.iter, at, _seen)
                subs.append(p)
                o |= self.origins(p)
            elt = e.value if isinstance(e, ast.DictComp) else e.elt
            # element expression evaluated with the comprehension variables bound to elements of their sources
            env = dict(getattr(self, "_env", {}))
            for g in e.generators:
                names = [x.id for x in ast.walk(g.target) if isinstance(x, ast.Name)]
                fake = ast.For(target=g.target, iter=g.iter, body=[], orelse=[])
                for nm in names:
                    b = for_binding(fake, nm)
                    saved = getattr(self, "_env", {})
                    self._env = env
                    try:
                        if b is not None:
                            sp = self._term(b[0], at, _seen)
                            env[nm] = self.mk(f"elem({sp.key()})", "idx", self.origins(sp), g.iter, [sp], name="elem")
                        else:
                            sp = self._term(g.iter, at, _seen)
                            env[nm] = self.mk(f"iter:{nm}({sp.key()})", "iter", self.origins(sp), g.iter, [sp], name=nm)
                    finally:
                        self._env = saved
            saved = getattr(self, "_env", {})
            self._env = env
            try:
                et = self._term(elt, at, _seen)
            finally:
                self._env = saved
            o |= self.origins(et)
            return self.mk(f"comp[{et.key()}]({','.join(s.key() for s in subs)})", "comp", o, e, [et] + subs, name=short(elt, 60))
        if isinstance(e, ast.NamedExpr):
            return self._term(e.value, at, _seen)
        if isinstance(e, ast.Starred):
            return self._term(e.value, at, _seen)
        if isinstance(e, ast.JoinedStr):
            return self.mk(f"fstr:{short(e, 60)}", "const", [], e)
        return self._opaque(e, at, _seen)

    def _phi(self, alts: List[Poly], node, cond: Optional[Poly] = None) -> Poly:
        uniq = []
        for a in alts:
            if a not in uniq:
                uniq.append(a)
        if len(uniq) == 1:
            return uniq[0]
        o: Set[str] = set()
        for a in uniq:
            o |= self.origins(a)
        keys = sorted(a.key() for a in uniq)
        return self.mk("phi(" + " | ".join(keys) + ")", "phi", o, node, uniq)

    # ------------------------------------------------------------------ names
    def _name(self, e: ast.Name, at: Node, _seen) -> Poly:
        name = e.id
        if name in ("True", "False"):
            return Poly.const(1 if name == "True" else 0)
        if self.selfname and name == self.selfname:
            return self.mk("self", "self", [], e)
        env = getattr(self, "_env", None)
        if env and name in env:
            return env[name]
        defs = self.cfg.defs_reaching(at, name)
        if not defs:
            return self.mk(f"global:{name}", "global", [f"global:{name}"], e, name=name)
        alts: List[Poly] = []
        for d in defs:
            tag = (name, d.id)
            if tag in _seen or (d.kind != "entry" and self._loop_carried(d, at)):
                # loop-carried definition: canonical recursion atom (not unrolled)
                alts.append(self.mk(f"rec:{name}@{self.fn.qualname}", "rec", [f"rec:{name}"], e, name=name))
                continue
            seen2 = _seen | {tag}
            if d.kind == "entry":
                alts.append(self._param(name))
            elif d.kind == "for":
                b = for_binding(d.ast, name)  # type: ignore[arg-type]
                if b is not None:
                    src, how = b
                    p = self._term(src, d, seen2)
                    alts.append(self.mk(f"elem({p.key()})", "idx", self.origins(p), d.ast, [p], name="elem"))
                else:
                    p = self._term(d.ast.iter, d, seen2)  # type: ignore[attr-defined]
                    alts.append(self.mk(f"iter:{name}({p.key()})", "iter", self.origins(p), d.ast, [p], name=name))
            elif d.kind == "with":
                v = self.cfg.value_of_def(d, name)
                alts.append(self._term(v, d, seen2) if v is not None else self.mk(f"with:{name}", "opaque", [], e))
            else:
                s = d.ast
                v = self.cfg.value_of_def(d, name)
                if v is not None:
                    alts.append(self._term(v, d, seen2))
                elif isinstance(s, ast.AugAssign) and isinstance(s.target, ast.Name):
                    prev = self._name_before(name, d, seen2)
                    rhs = self._term(s.value, d, seen2)
                    alts.append(self._binop(s.op, prev, rhs, s))
                elif isinstance(s, ast.Assign) and any(isinstance(t, ast.Subscript) for t in s.targets):
                    # element update of a container: x[i] = v  -> container of (previous | v)
                    prev = self._name_before(name, d, seen2)
                    rhs = self._term(s.value, d, seen2)
                    alts.append(self.mk(f"upd({prev.key()};{rhs.key()})", "upd", self.origins(prev) | self.origins(rhs), s, [prev, rhs]))
                elif isinstance(s, ast.AugAssign):
                    prev = self._name_before(name, d, seen2)
                    rhs = self._term(s.value, d, seen2)
                    alts.append(self.mk(f"upd({prev.key()};{type(s.op).__name__}{rhs.key()})", "upd",
                                        self.origins(prev) | self.origins(rhs), s, [prev, rhs]))
                elif isinstance(s, ast.Expr) and isinstance(s.value, ast.Call):
                    prev = self._name_before(name, d, seen2)
                    o = set(self.origins(prev))
                    subs = [prev]
                    for a in s.value.args:
                        p = self._term(a, d, seen2)
                        subs.append(p)
                        o |= self.origins(p)
                    alts.append(self.mk(f"upd({';'.join(x.key() for x in subs)})", "upd", o, s, subs))
                else:
                    alts.append(self.mk(f"def:{name}@{d.lineno}", "opaque", [], e))
        return self._phi(alts, e)

    def _name_before(self, name: str, d: Node, _seen) -> Poly:
        defs = self.cfg.defs_reaching(d, name)
        alts = []
        for dd in defs:
            tag = (name, dd.id)
            if tag in _seen or dd is d or (dd.kind != "entry" and self._loop_carried(dd, d)):
                alts.append(self.mk(f"rec:{name}@{self.fn.qualname}", "rec", [f"rec:{name}"], None, name=name))
                continue
            fake = ast.Name(id=name, ctx=ast.Load())
            # evaluate as seen at dd's out: emulate by evaluating name at d with only dd
            alts.append(self._name_via(fake, dd, _seen | {tag}))
        if not alts:
            return self.mk(f"undef:{name}", "opaque", [], None)
        return self._phi(alts, None)

    def _name_via(self, e: ast.Name, d: Node, _seen) -> Poly:
        name = e.id
        if d.kind == "entry":
            return self._param(name)
        if d.kind == "for":
            b = for_binding(d.ast, name)  # type: ignore[arg-type]
            if b is not None:
                p = self._term(b[0], d, _seen)
                return self.mk(f"elem({p.key()})", "idx", self.origins(p), d.ast, [p], name="elem")
            p = self._term(d.ast.iter, d, _seen)  # type: ignore[attr-defined]
            return self.mk(f"iter:{name}({p.key()})", "iter", self.origins(p), d.ast, [p], name=name)
        v = self.cfg.value_of_def(d, name)
        if v is not None:
            return self._term(v, d, _seen)
        s = d.ast
        if isinstance(s, ast.AugAssign):
            prev = self._name_before(name, d, _seen)
            rhs = self._term(s.value, d, _seen)
            if isinstance(s.target, ast.Name):
                return self._binop(s.op, prev, rhs, s)
            return self.mk(f"upd({prev.key()};{type(s.op).__name__}{rhs.key()})", "upd", self.origins(prev) | self.origins(rhs), s, [prev, rhs])
        if isinstance(s, ast.Assign):
            prev = self._name_before(name, d, _seen)
            rhs = self._term(s.value, d, _seen)
            return self.mk(f"upd({prev.key()};{rhs.key()})", "upd", self.origins(prev) | self.origins(rhs), s, [prev, rhs])
        if isinstance(s, ast.Expr) and isinstance(s.value, ast.Call):
            prev = self._name_before(name, d, _seen)
            o = set(self.origins(prev))
            subs = [prev]
            for a in s.value.args:
                p = self._term(a, d, _seen)
                subs.append(p)
                o |= self.origins(p)
            return self.mk(f"upd({';'.join(x.key() for x in subs)})", "upd", o, s, subs)
        return self.mk(f"def:{name}@{d.lineno}", "opaque", [], e)

    def _binop(self, op: ast.operator, a: Poly, b: Poly, node) -> Poly:
        if isinstance(op, ast.Add):
            return a + b
        if isinstance(op, ast.Sub):
            return a - b
        if isinstance(op, ast.Mult):
            return a * b
        if isinstance(op, ast.Div):
            i = b.inv()
            if i is not None:
                return a * i
        return self.mk(f"{type(op).__name__}({a.key()},{b.key()})", "binop", self.origins(a) | self.origins(b), node, [a, b],
                       name=type(op).__name__)

    # ------------------------------------------------------------------ parameters
    def _param(self, name: str) -> Poly:
        if name in self._param_cache:
            return self._param_cache[name]
        fq = f"{self.fn.qualname}.{name}"
        res: Optional[Poly] = None
        if self.fn.cls is not None and self.depth > 0 and self.fn.name not in ("__init__",):
            alts: List[Poly] = []
            for caller, call in self._call_sites():
                if caller.qualname in self._stack:
                    continue
                arg = bind_arg(self.fn, call, name)
                if arg is None:
                    continue
                tb = self._sub_builder(caller)
                n = tb.cfg.node_of(call)
                if n is None:
                    continue
                alts.append(tb.term(arg, n))
            if alts:
                res = self._phi(alts, None)
        if res is None:
            origins = [f"param:{fq}"]
            lname = name.lower()
            res = self.mk(f"param:{fq}", "param", origins, None, name=name)
        self._param_cache[name] = res
        return res

    _builders: Dict[str, "TermBuilder"]

    def _sub_builder(self, fn: Fn) -> "TermBuilder":
        cache = self.__dict__.setdefault("_builders", {})
        if fn.qualname not in cache:
            cache[fn.qualname] = TermBuilder(self.repo, fn, self.atoms, self.depth - 1, _stack=self._stack)
        return cache[fn.qualname]

    def _call_sites(self) -> List[Tuple[Fn, ast.Call]]:
        out = []
        cls = self.fn.cls
        assert cls is not None
        for m in cls.methods.values():
            if m is self.fn:
                continue
            sn = m.params[0] if m.params else "self"
            for c in calls_in(m.node):
                if call_name(c) == f"{sn}.{self.fn.name}":
                    out.append((m, c))
        return out

    # ------------------------------------------------------------------ subscripts and calls
    def _subscript(self, e: ast.Subscript, at: Node, _seen) -> Poly:
        # a, b, c = (f(k) for k in ("x", "y", "z"))  ->  element i is f("x"|"y"|"z") with the constant substituted
        if getattr(e, "_unpack_len", None) is not None and isinstance(e.value, (ast.GeneratorExp, ast.ListComp)) and isinstance(e.slice, ast.Constant) \
                and isinstance(e.slice.value, int) and len(e.value.generators) == 1 and not e.value.generators[0].ifs:
            g = e.value.generators[0]
            if isinstance(g.iter, (ast.Tuple, ast.List)) and isinstance(g.target, ast.Name) and 0 <= e.slice.value < len(g.iter.elts):
                const = g.iter.elts[e.slice.value]
                tname = g.target.id

                class _Sub(ast.NodeTransformer):
                    def visit_Name(self, node):
                        return ast.copy_location(const, node) if node.id == tname and isinstance(node.ctx, ast.Load) else node

                import copy as _copy
                elt = _Sub().visit(_copy.deepcopy(e.value.elt))
                ast.fix_missing_locations(elt)
                return self._term(elt, at, _seen)
        base = self._term(e.value, at, _seen)
        sl = e.slice
        origins = set(self.origins(base))
        keytxt = short(sl, 60)
        if isinstance(sl, ast.Constant):
            if isinstance(sl.value, str) and sl.value in ROLE_BY_KEY and self._is_batch_like(base):
                origins = {o for o in origins if not o.startswith("role:")} | {f"role:{ROLE_BY_KEY[sl.value]}"}
            ul = getattr(e, "_unpack_len", None)
            if isinstance(sl.value, int) and ul == 5 and self._is_batch_like(base):
                origins = {o for o in origins if not o.startswith("role:")} | {f"role:{ROLE_BY_POS5[sl.value]}"}
            if isinstance(sl.value, int) and ul == 8 and self._is_batch_like(base):
                origins = {o for o in origins if not o.startswith("role:")} | {f"role:{ROLE_BY_POS8[sl.value]}"}
            # x_k = map(f, (a, b, ...))[k]  ->  f(a_k): the role of element k survives the regrouping helper
            ba = single_atom(self, base)
            if isinstance(sl.value, int) and ba is not None and ba.kind == "call" and ba.name == "map" and len(ba.sub) >= 2:
                seq = single_atom(self, ba.sub[-1])
                if seq is not None and seq.kind == "seq" and 0 <= sl.value < len(seq.sub):
                    inner = seq.sub[sl.value]
                    f = ba.sub[-2]
                    return self.mk(f"call:{f.key()}({inner.key()})", "call", self.origins(inner) | {f"call:{f.key()}"}, e, [f, inner], name=f.key().split(":")[-1])
            # seq literal indexing
            for k in base.atoms() if len(base.t) == 1 else []:
                a = self.atoms.get(k)
                if a is not None and a.kind == "seq" and isinstance(sl.value, int) and base == Poly.atom(k) and -len(a.sub) <= sl.value < len(a.sub):
                    return a.sub[sl.value]
        else:
            kt = self._term(sl, at, _seen) if isinstance(sl, ast.expr) and not isinstance(sl, (ast.Slice, ast.Tuple)) else None
            if kt is not None:
                keytxt = kt.key()
                return self.mk(f"idx({base.key()})[{keytxt}]", "idx", origins, e, [base, kt], name=keytxt)
        return self.mk(f"idx({base.key()})[{keytxt}]", "idx", origins, e, [base], name=keytxt)

    def _is_batch_like(self, base: Poly) -> bool:
        """base is (derived only from) a function parameter / a sampled batch — not a network output."""
        for k in base.atoms():
            a = self.atoms.get(k)
            if a is None:
                return False
            if a.kind in ("param", "phi", "idx", "comp", "iter"):
                if a.kind == "param":
                    continue
                if all(self._is_batch_like(s) for s in a.sub) and a.sub:
                    continue
                return False
            if a.kind == "call" and a.name in BATCH_ADAPTERS and a.sub:
                args = [s for s in a.sub if s.atoms() and not all(self.atoms[k].kind in ("global", "self") for k in s.atoms() if k in self.atoms)]
                if args and all(self._is_batch_like(s) for s in args):
                    continue
            return False
        return bool(base.atoms())

    def _helper_of(self, e: ast.Call, at: Node) -> Optional[Fn]:
        """The private helper a call denotes, if it is one the front end would inline were its body in the right form: a method of the same
        class called on self (or a function of the same module), defined exactly once in the package, private, and not an anchor of any rule."""
        f = e.func
        callee: Optional[Fn] = None
        if isinstance(f, ast.Attribute) and isinstance(f.value, ast.Name) and self.selfname and f.value.id == self.selfname and self.fn.cls is not None:
            callee = self.repo.find_method(self.fn.cls, f.attr)
        elif isinstance(f, ast.Name) and not self.cfg.defs_reaching(at, f.id) and f.id not in (getattr(self, "_env", None) or {}):
            callee = self.fn.mod.functions.get(f.id)
        if callee is None or callee.mod is not self.fn.mod:
            return None
        nm = callee.name
        if not nm.startswith("_") or nm.startswith("__") or getattr(self.repo, "unique_defs", {}).get(nm) is not callee.node:
            return None
        from .inline import known_names
        if nm in known_names():
            return None
        nd = callee.node
        if isinstance(nd, ast.AsyncFunctionDef) or nd.args.vararg or nd.args.kwarg:
            return None
        for d in nd.decorator_list:
            if not (isinstance(d, ast.Name) and d.id in ("staticmethod", "classmethod")):
                return None
        if any(isinstance(x, (ast.Yield, ast.YieldFrom, ast.Await)) for x in walk_no_nested(nd)):
            return None
        return callee

    def _follow_helper(self, e: ast.Call, at: Node, _seen) -> Optional[Poly]:
        """Value of a call of a private helper: the alternatives of its `return` expressions (wherever they stand: inside `with`, loops, after an
        early return), evaluated in the helper with every parameter bound to the term of the argument of this call."""
        if len(self._stack) >= 4 or any(isinstance(a, ast.Starred) for a in e.args) or any(k.arg is None for k in e.keywords):
            return None
        callee = self._helper_of(e, at)
        if callee is None or callee.qualname in self._stack:
            return None
        rets = [x for x in walk_no_nested(callee.node) if isinstance(x, ast.Return) and x.value is not None]
        if not rets:
            return None
        cfgs = self.__dict__.setdefault("_helper_cfgs", {})
        if callee.qualname not in cfgs:
            cfgs[callee.qualname] = CFG(callee.node)
        sub = TermBuilder(self.repo, callee, self.atoms, self.depth, cfg=cfgs[callee.qualname], _stack=self._stack)
        sub._under_nograd = self.in_nograd(at)  # a helper called under no_grad runs under no_grad as a whole
        params = callee.named_params
        if callee.cls is not None and not callee.has_decorator("staticmethod") and params:
            params = params[1:]
        for p in params:
            arg = bind_arg(callee, e, p)
            if arg is None:
                return None
            sub._param_cache[p] = self._term(arg, at, _seen)
        alts: List[Poly] = []
        for r in sorted(rets, key=lambda x: (x.lineno, x.col_offset)):
            n = sub.cfg.node_of(r.value)
            if n is None:
                continue  # unreachable
            alts.append(sub.term(r.value, n))
        if not alts:
            return None
        return self._phi(alts, e)

    def _call(self, e: ast.Call, at: Node, _seen) -> Poly:
        cn = call_name(e)
        la = last_attr(e)
        ng = self.in_nograd(at)
        f = e.func
        # adapters
        if isinstance(f, ast.Attribute) and la in ADAPTER_METHODS:
            inner = self._term(f.value, at, _seen)
            if la == "detach":
                inner = self._mark_nograd(inner)
            return inner
        if cn in ADAPTER_FUNCS and e.args:
            return self._term(e.args[0], at, _seen)
        if cn in ("torch.zeros_like", "np.zeros_like"):
            return Poly.const(0)
        if cn in ("torch.ones_like", "np.ones_like"):
            return Poly.const(1)
        if isinstance(f, ast.Attribute) and la == "logical_not":
            return Poly.const(1) - self._term(f.value, at, _seen)
        if cn in ("torch.logical_not", "np.logical_not") and e.args:
            return Poly.const(1) - self._term(e.args[0], at, _seen)
        if cn in ("torch.where", "np.where") and len(e.args) == 3:
            c = self._term(e.args[0], at, _seen)
            return c * self._term(e.args[1], at, _seen) + (Poly.const(1) - c) * self._term(e.args[2], at, _seen)
        if isinstance(f, ast.Attribute) and la in ("masked_fill", "masked_fill_") and len(e.args) == 2:
            x = self._term(f.value, at, _seen)
            c = self._term(e.args[0], at, _seen)
            return (Poly.const(1) - c) * x + c * self._term(e.args[1], at, _seen)
        if cn == "torch.lerp" and len(e.args) == 3:
            a, b, w = (self._term(x, at, _seen) for x in e.args)
            return a + w * (b - a)
        if isinstance(f, ast.Attribute) and la in ("mul", "add", "sub", "div") and len(e.args) >= 1:
            x = self._term(f.value, at, _seen)
            y = self._term(e.args[0], at, _seen)
            alpha = next((self._term(k.value, at, _seen) for k in e.keywords if k.arg == "alpha"), None)
            if alpha is not None:
                y = y * alpha
            op = {"mul": ast.Mult(), "add": ast.Add(), "sub": ast.Sub(), "div": ast.Div()}[la]
            return self._binop(op, x, y, e)
        if cn in ("torch.mul", "torch.add", "torch.sub", "torch.div") and len(e.args) == 2:
            op = {"mul": ast.Mult(), "add": ast.Add(), "sub": ast.Sub(), "div": ast.Div()}[cn.split(".")[1]]
            return self._binop(op, self._term(e.args[0], at, _seen), self._term(e.args[1], at, _seen), e)
        # extracted private helpers the front end could not inline (e.g. a `return` inside a `with` block): the value of the call is the
        # value the helper returns, with its parameters bound to the arguments of THIS call
        followed = self._follow_helper(e, at, _seen)
        if followed is not None:
            return followed
        # generic call atom
        args = [self._term(a, at, _seen) for a in e.args]
        kws = [(k.arg or "**", self._term(k.value, at, _seen)) for k in e.keywords]
        origins: Set[str] = set()
        for p in args:
            origins |= self.origins(p)
        for _, p in kws:
            origins |= self.origins(p)
        subs = list(args) + [p for _, p in kws]
        if isinstance(f, ast.Attribute):
            recv = self._term(f.value, at, _seen)
            origins |= self.origins(recv)
            fkey = f"{recv.key()}.{la}"
            subs = [recv] + subs
            kind_name = la
        elif isinstance(f, ast.Name):
            callee = self._name(f, at, _seen) if (self.cfg.defs_reaching(at, f.id) or f.id in (getattr(self, "_env", None) or {})) else None
            if callee is not None:
                fkey = callee.key()
                origins |= self.origins(callee)
                subs = [callee] + subs
            else:
                fkey = f.id
            kind_name = f.id
        else:
            callee = self._term(f, at, _seen)
            fkey = callee.key()
            origins |= self.origins(callee)
            subs = [callee] + subs
            kind_name = "<dyn>"
        origins.add(f"call:{fkey}")
        key = f"call:{fkey}({','.join(p.key() for p in args)}{';' if kws else ''}{','.join(f'{k}={p.key()}' for k, p in kws)})"
        return self.mk(key, "call", origins, e, subs, name=kind_name, nograd=ng)


# ------------------------------------------------------------------------------------------------
def for_binding(loop: ast.For, name: str) -> Optional[Tuple[ast.AST, str]]:
    """Source collection of loop variable `name` for `for <pattern> in [enumerate(]zip(A, B, ..)[)]`,
    `for x in A`, `for i, x in enumerate(A)`.  Returns (A_k, how)."""
    it = loop.iter
    tgt = loop.target
    if isinstance(it, ast.Call) and call_name(it) == "enumerate" and it.args:
        if isinstance(tgt, (ast.Tuple, ast.List)) and len(tgt.elts) == 2:
            if isinstance(tgt.elts[0], ast.Name) and tgt.elts[0].id == name:
                return None  # the counter
            it = it.args[0]
            tgt = tgt.elts[1]
        else:
            return None
    if isinstance(it, ast.Call) and call_name(it) == "zip":
        if isinstance(tgt, (ast.Tuple, ast.List)) and len(tgt.elts) == len(it.args):
            for t, a in zip(tgt.elts, it.args):
                if isinstance(t, ast.Name) and t.id == name:
                    return a, "zip"
                if isinstance(t, (ast.Tuple, ast.List)):
                    for j, tt in enumerate(t.elts):
                        if isinstance(tt, ast.Name) and tt.id == name:
                            return ast.Subscript(value=a, slice=ast.Constant(value=j), ctx=ast.Load()), "zip-unpack"
        return None
    if isinstance(tgt, ast.Name) and tgt.id == name:
        return it, "iter"
    if isinstance(it, ast.Call) and isinstance(it.func, ast.Attribute) and it.func.attr in ("items",) and isinstance(tgt, (ast.Tuple, ast.List)) \
            and len(tgt.elts) == 2 and isinstance(tgt.elts[1], ast.Name) and tgt.elts[1].id == name:
        return it.func.value, "items-value"
    if isinstance(it, ast.Call) and isinstance(it.func, ast.Attribute) and it.func.attr in ("values",) and isinstance(tgt, ast.Name) and tgt.id == name:
        return it.func.value, "values"
    return None


def bind_arg(fn: Fn, call: ast.Call, param: str) -> Optional[ast.AST]:
    """The argument expression bound to `param` of method `fn` at `call` (self.fn(...))."""
    params = fn.named_params
    if fn.cls is not None and not fn.has_decorator("staticmethod") and params:
        params = params[1:]
    for k in call.keywords:
        if k.arg == param:
            return k.value
    if any(isinstance(a, ast.Starred) for a in call.args):
        return None
    if param in params:
        i = params.index(param)
        if i < len(call.args):
            return call.args[i]
    # default value
    a = fn.node.args
    allp = a.posonlyargs + a.args
    defaults = [None] * (len(allp) - len(a.defaults)) + list(a.defaults)
    for p, d in zip(allp, defaults):
        if p.arg == param and d is not None:
            return d
    for p, d in zip(a.kwonlyargs, a.kw_defaults):
        if p.arg == param and d is not None:
            return d
    return None


# ------------------------------------------------------------------------------------------------
def walk_atoms(tb: "TermBuilder", p: Poly, under_ng: bool = False, path: Tuple[str, ...] = (),
               _seen: Optional[Set[str]] = None) -> Iterable[Tuple[Atom, bool, Tuple[str, ...]]]:
    """All atoms of p, recursively through sub-terms: (atom, under no-grad?, names of enclosing atoms)."""
    _seen = _seen if _seen is not None else set()
    for k in sorted(p.atoms()):
        a = tb.atoms.get(k)
        if a is None:
            continue
        ng = under_ng or a.nograd
        yield a, ng, path
        tag = k + "|" + ">".join(path[-3:])
        if tag in _seen:
            continue
        _seen.add(tag)
        for s in a.sub:
            yield from walk_atoms(tb, s, ng, path + (a.name or a.kind,), _seen)


def single_atom(tb: "TermBuilder", p: Poly) -> Optional[Atom]:
    if len(p.t) != 1:
        return None
    (m, c), = p.t.items()
    if len(m) != 1 or m[0][1] != 1 or c != 1:
        return None
    return tb.atoms.get(m[0][0])


def mentions(tb: "TermBuilder", p: Poly, pred: Callable[[Atom], bool]) -> bool:
    return any(pred(a) for a, _, _ in walk_atoms(tb, p))


def expand_phi(tb: "TermBuilder", p: Poly, limit: int = 16, rounds: int = 3) -> List[Poly]:
    """Alternatives of p obtained by replacing each top-level phi atom by each of its alternatives."""
    out = [p]
    for _ in range(rounds):
        nxt: List[Poly] = []
        changed = False
        for q in out:
            phis = [k for k in sorted(q.atoms()) if tb.atoms.get(k) is not None and tb.atoms[k].kind == "phi"]
            if not phis:
                nxt.append(q)
                continue
            k = phis[0]
            changed = True
            for alt in tb.atoms[k].sub:
                nxt.append(q.subst({k: alt}))
        out = nxt[:limit]
        if not changed:
            break
    uniq: List[Poly] = []
    for q in out:
        if q not in uniq:
            uniq.append(q)
    return uniq
