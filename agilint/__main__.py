"""CLI: python -m agilint check <Cxx> [--tier quick|thorough] [--repo /repo]
        python -m agilint explain <replay.json>
        python -m agilint all [--tier ..]
"""
from __future__ import annotations

import argparse
import importlib
import json
import os
import sys
import traceback

from .core import AnalysisError, Repo
from .report import Check

PROPS = [f"C{i:02d}" for i in range(1, 21)]


def run_check(prop: str, tier: str, root: str) -> int:
    try:
        mod = importlib.import_module(f"agilint.rules.{prop.lower()}")
    except ModuleNotFoundError:
        print(f"ANALYSIS-ERROR property={prop}: no rule module")
        return 2
    ck = None
    try:
        repo = Repo(root)
        ck = Check(prop, tier, root)
        ck.note("files_parsed", repo.n_files)
        ck.note("classes", repo.n_classes)
        ck.note("functions", repo.n_functions)
        mod.run(ck, repo)
        if tier == "thorough" and hasattr(mod, "run_thorough"):
            mod.run_thorough(ck, repo)
        return ck.finish()
    except AnalysisError as e:
        # violations established before the analysis got stuck stand; otherwise the run is analysis-broken
        try:
            if ck is not None and any(o.status == "violated" for o in ck.obs):
                print(f"ANALYSIS-INCOMPLETE property={prop}: {e} (violations found before that point are reported)")
                ck.not_decided.append(f"analysis incomplete on this tree: {e}")
                return ck.finish()
        except AnalysisError:
            pass
        print(f"ANALYSIS-ERROR property={prop}: {e}")
        return 2
    except BrokenPipeError:
        # the reader of our output went away (`... | head -1`): the verdict is already in the evidence file; stay quiet
        try:
            sys.stdout = open(os.devnull, "w")
        except Exception:
            pass
        if ck is not None and ck.obs:
            return 1 if any(o.status == "violated" for o in ck.obs) else 0
        return 2
    except Exception as e:  # a traceback must never look like a violation
        try:
            if ck is not None and any(o.status == "violated" for o in ck.obs):
                print(f"ANALYSIS-INCOMPLETE property={prop}: {type(e).__name__}: {e} (violations found before that point are reported)")
                ck.not_decided.append(f"analysis incomplete on this tree: {type(e).__name__}: {e}")
                return ck.finish()
        except Exception:
            pass
        print(f"ANALYSIS-ERROR property={prop}: internal error")
        traceback.print_exc()
        return 2


def main(argv=None) -> int:
    ap = argparse.ArgumentParser(prog="agilint")
    sub = ap.add_subparsers(dest="cmd", required=True)
    c = sub.add_parser("check")
    c.add_argument("prop")
    c.add_argument("--tier", default=os.environ.get("VERIF_TIER", "quick"))
    c.add_argument("--repo", default=os.environ.get("AGILINT_REPO", "/repo"))
    a = sub.add_parser("all")
    a.add_argument("--tier", default="quick")
    a.add_argument("--repo", default=os.environ.get("AGILINT_REPO", "/repo"))
    e = sub.add_parser("explain")
    e.add_argument("path")
    e.add_argument("--repo", default=os.environ.get("AGILINT_REPO", "/repo"))
    s = sub.add_parser("selftest")
    s.add_argument("prop", nargs="?")
    s.add_argument("--repo", default=os.environ.get("AGILINT_REPO", "/repo"))
    s.add_argument("--jobs", type=int, default=16)
    al = sub.add_parser("alpha")
    al.add_argument("props", nargs="*")
    al.add_argument("--repo", default=os.environ.get("AGILINT_REPO", "/repo"))
    args = ap.parse_args(argv)
    if args.cmd == "alpha":
        from .alpha import run_alpha

        return run_alpha(args.props or PROPS, args.repo)
    if args.cmd == "check":
        tier = args.tier if args.tier in ("quick", "thorough") else "quick"
        rc = run_check(args.prop, tier, args.repo)
        if rc == 0 and tier == "thorough":
            from .selftest import run_selftest

            rc = run_selftest(args.prop, args.repo, jobs=16, quiet=True)
            if rc == 0:
                from .alpha import run_alpha

                rc = run_alpha([args.prop], args.repo, evidence=True)
        return rc
    if args.cmd == "all":
        worst = 0
        for p in PROPS:
            rc = run_check(p, args.tier, args.repo)
            worst = max(worst, rc)
        return worst
    if args.cmd == "explain":
        with open(args.path) as fh:
            d = json.load(fh)
        print(json.dumps(d, indent=1))
        print("--- re-running the check on the current tree ---")
        return run_check(d["property"], "quick", args.repo)
    if args.cmd == "selftest":
        from .selftest import run_selftest

        props = [args.prop] if args.prop else PROPS
        worst = 0
        for p in props:
            worst = max(worst, run_selftest(p, args.repo, jobs=args.jobs, quiet=False))
        return worst
    return 2


if __name__ == "__main__":
    sys.exit(main())
