"""Small special-purpose abstract domains.

D-own  : ownership of a value   FRESH > SHALLOW > ALIAS/UNKNOWN
D-mask : "vanishes when flag = 1"
helpers for clip recognition, comparison direction etc.
"""
from __future__ import annotations

import ast
from dataclasses import dataclass
from typing import Dict, List, Optional, Set, Tuple

from .cfg import CFG, Node
from .core import call_name, dotted, last_attr, short

FRESH, SHALLOW, ALIAS, UNKNOWN = "FRESH", "SHALLOW", "ALIAS", "UNKNOWN"
_ORDER = {FRESH: 0, SHALLOW: 1, ALIAS: 2, UNKNOWN: 3}


@dataclass
class Own:
    level: str
    why: str

    def join(self, other: "Own") -> "Own":
        return self if _ORDER[self.level] >= _ORDER[other.level] else other


DEEP_COPY_CALLS = {"copy.deepcopy", "deepcopy"}
DEEP_COPY_METHODS = {"clone"}  # x.clone(): EvolvableModule/EvolvableAlgorithm/torch.Tensor -> independent object
DEEP_COPY_FUNCS = {"torch.clone", "torch.tensor", "torch.zeros", "torch.ones", "torch.zeros_like", "torch.ones_like",
                   "torch.empty", "torch.eye", "torch.full", "np.zeros", "np.ones", "np.copy", "np.array",
                   "torch.stack", "torch.cat", "torch.randn", "torch.rand", "np.zeros_like", "np.ones_like"}
SHALLOW_CALLS = {"list", "dict", "tuple", "set", "sorted"}
SHALLOW_METHODS = {"copy"}
IMMUTABLE_CALLS = {"int", "float", "str", "bool", "len", "max", "min", "sum", "type", "isinstance", "hasattr", "range",
                   "np.mean", "np.argmax", "np.argsort", "np.random.randint", "id", "abs", "round"}


# call -> FunctionDef of the package function it denotes (installed by core.Repo; None = no interprocedural summaries)
RESOLVER = None
_SUMMARIES: dict = {}
_SUMMARY_BUSY: set = set()


def set_resolver(fn) -> None:
    global RESOLVER
    RESOLVER = fn
    _SUMMARIES.clear()


class OwnEval:
    """Evaluate the ownership of an expression at a CFG node of one function."""

    def __init__(self, cfg: CFG, fresh_ctor_names: Optional[Set[str]] = None,
                 alias_roots: Optional[Set[str]] = None):
        self.cfg = cfg
        self.fresh_ctor_names = fresh_ctor_names or set()
        self.alias_roots = alias_roots or set()

    def _summary(self, call: ast.Call, _seen) -> Optional[Own]:
        """Ownership of the result of a call to a function of the package (resolved by RESOLVER, set by the program model): the join over
        its `return` expressions, evaluated in the callee with its parameters as live objects.  Two levels deep."""
        if RESOLVER is None or self.depth >= 2:
            return None
        fd = RESOLVER(call)
        if fd is None:
            return None
        key = id(fd)
        if key in _SUMMARY_BUSY:
            return None
        cached = _SUMMARIES.get(key)
        if cached is None:
            _SUMMARY_BUSY.add(key)
            try:
                ccfg = CFG(fd)
                sub = OwnEval(ccfg, self.fresh_ctor_names, set())
                sub.depth = self.depth + 1
                r: Optional[Own] = None
                for n in ccfg.live_nodes():
                    if n.kind == "stmt" and isinstance(n.ast, ast.Return):
                        o = sub.own(n.ast.value, n) if n.ast.value is not None else Own(FRESH, "None")
                        r = o if r is None else r.join(o)
                cached = r if r is not None else Own(FRESH, "returns None")
            finally:
                _SUMMARY_BUSY.discard(key)
            _SUMMARIES[key] = cached
        return Own(cached.level, f"{short(call, 60)} returns [{cached.why}]")

    depth = 0

    def own(self, e: ast.AST, at: Node, _seen: Optional[Set[Tuple[int, int]]] = None) -> Own:
        _seen = _seen or set()
        key = (id(e), at.id)
        if key in _seen:
            return Own(FRESH, "cycle")  # neutral element for the join
        _seen = _seen | {key}
        if isinstance(e, ast.Constant):
            return Own(FRESH, "constant")
        if isinstance(e, ast.JoinedStr):
            return Own(FRESH, "string")
        if isinstance(e, (ast.BinOp, ast.UnaryOp, ast.Compare, ast.BoolOp)) and not isinstance(e, ast.BoolOp):
            return Own(FRESH, "arithmetic result")
        if isinstance(e, ast.BoolOp):
            r = Own(FRESH, "boolop")
            for v in e.values:
                r = r.join(self.own(v, at, _seen))
            return r
        if isinstance(e, ast.IfExp):
            return self.own(e.body, at, _seen).join(self.own(e.orelse, at, _seen))
        if isinstance(e, ast.Call):
            cn = call_name(e)
            la = last_attr(e)
            if cn in DEEP_COPY_CALLS:
                return Own(FRESH, f"{cn}(...)")
            if cn in DEEP_COPY_FUNCS:
                return Own(FRESH, f"{cn}(...) builds new storage")
            if cn in IMMUTABLE_CALLS:
                return Own(FRESH, f"{cn}(...) immutable result")
            if isinstance(e.func, ast.Attribute) and la in DEEP_COPY_METHODS:
                # TensorDict.clone(recurse=False) / clone(False) copies the container only: the tensors stay shared
                rec = None
                for k in e.keywords:
                    if k.arg == "recurse":
                        rec = k.value
                if rec is None and la == "clone" and e.args and isinstance(e.args[0], ast.Constant) and e.args[0].value is False:
                    rec = e.args[0]
                if rec is not None and not (isinstance(rec, ast.Constant) and rec.value is True):
                    return Own(SHALLOW, f".{la}(recurse=False) copies the container only, the tensors inside stay shared")
                return Own(FRESH, f".{la}() returns an independent copy")
            if cn in SHALLOW_CALLS or (isinstance(e.func, ast.Attribute) and la in SHALLOW_METHODS):
                inner = Own(FRESH, "empty")
                for a in e.args:
                    inner = inner.join(self.own(a, at, _seen))
                if inner.level == FRESH and e.args:
                    return Own(FRESH, f"{cn or la}() of fresh elements")
                if not e.args and cn in SHALLOW_CALLS:
                    return Own(FRESH, f"{cn}() empty container")
                return Own(SHALLOW, f"{cn or la}() copies the container only, elements stay shared")
            if cn.split(".")[-1] in self.fresh_ctor_names or (cn and cn.split(".")[-1][:1].isupper() and "?" not in cn):
                return Own(FRESH, f"new object {cn}(...)")
            if cn == "type" or (isinstance(e.func, ast.Call) and call_name(e.func) == "type"):
                return Own(FRESH, "new object type(x)(...)")
            if cn == "getattr":
                return Own(ALIAS, f"getattr(...) returns the live attribute: {short(e, 80)}")
            if isinstance(e.func, ast.Attribute) and la in ("state_dict",):
                return Own(ALIAS, f"{short(e, 80)} returns references to live state tensors")
            summ = self._summary(e, _seen)
            if summ is not None:
                return summ
            return Own(UNKNOWN, f"result of {short(e, 80)}")
        if isinstance(e, (ast.ListComp, ast.GeneratorExp, ast.SetComp)):
            o = self.own(e.elt, at, _seen)
            return Own(o.level, f"comprehension of [{o.why}]")
        if isinstance(e, ast.DictComp):
            o = self.own(e.value, at, _seen)
            return Own(o.level, f"dict comprehension of [{o.why}]")
        if isinstance(e, (ast.List, ast.Tuple, ast.Set)):
            r = Own(FRESH, "literal")
            for x in e.elts:
                r = r.join(self.own(x, at, _seen))
            return r
        if isinstance(e, ast.Dict):
            r = Own(FRESH, "literal")
            for x in e.values:
                if x is not None:
                    r = r.join(self.own(x, at, _seen))
            return r
        if isinstance(e, ast.Name):
            if e.id in self.alias_roots:
                return Own(ALIAS, f"`{e.id}` is a live object")
            defs = self.cfg.defs_reaching(at, e.id)
            if not defs:
                return Own(UNKNOWN, f"`{e.id}` has no local definition")
            r: Optional[Own] = None
            for d in defs:
                if d.kind == "entry":
                    o = Own(ALIAS, f"parameter `{e.id}`")
                elif d.kind == "for":
                    o = Own(ALIAS, f"loop element `{e.id}` of {short(d.ast.iter, 60)}")  # type: ignore[attr-defined]
                else:
                    v = self.cfg.value_of_def(d, e.id)
                    if v is None:
                        # weak update (x[k] = v, x.attr = v) or augmented assignment
                        s = d.ast
                        if isinstance(s, ast.Assign) and any(isinstance(t, ast.Subscript) for t in s.targets):
                            o = self.own(s.value, d, _seen)
                        elif isinstance(s, ast.AugAssign):
                            o = self.own(s.value, d, _seen)
                        else:
                            o = Own(UNKNOWN, f"`{e.id}` bound at line {d.lineno}")
                    else:
                        o = self.own(v, d, _seen)
                r = o if r is None else r.join(o)
            assert r is not None
            return r
        if isinstance(e, ast.Subscript):
            if isinstance(e.slice, ast.Slice):
                inner = self.own(e.value, at, _seen)
                return Own(inner.level if inner.level == FRESH else ALIAS, f"slice/view of [{inner.why}]")
            inner = self.own(e.value, at, _seen)
            return Own(inner.level, f"element of [{inner.why}]")
        if isinstance(e, ast.Attribute):
            d = dotted(e)
            root = d.split(".")[0]
            return Own(ALIAS, f"attribute `{d}` read from a live object")
        if isinstance(e, ast.Starred):
            return self.own(e.value, at, _seen)
        if isinstance(e, ast.NamedExpr):
            return self.own(e.value, at, _seen)
        return Own(UNKNOWN, f"{type(e).__name__}")


# ---------------------------------------------------------------------------------------------
# comparison helpers


def flip(op: ast.cmpop) -> type:
    return {ast.Lt: ast.Gt, ast.Gt: ast.Lt, ast.LtE: ast.GtE, ast.GtE: ast.LtE, ast.Eq: ast.Eq, ast.NotEq: ast.NotEq}.get(type(op), type(op))


def negate_op(op: ast.cmpop) -> type:
    return {ast.Lt: ast.GtE, ast.Gt: ast.LtE, ast.LtE: ast.Gt, ast.GtE: ast.Lt, ast.Eq: ast.NotEq, ast.NotEq: ast.Eq,
            ast.Is: ast.IsNot, ast.IsNot: ast.Is, ast.In: ast.NotIn, ast.NotIn: ast.In}.get(type(op), type(op))


def conjuncts(test: ast.AST, positive: bool = True) -> List[Tuple[ast.AST, bool]]:
    """Atoms known to hold when `test` evaluates to `positive`: list of (atom, polarity)."""
    if isinstance(test, ast.UnaryOp) and isinstance(test.op, ast.Not):
        return conjuncts(test.operand, not positive)
    if isinstance(test, ast.BoolOp):
        if (isinstance(test.op, ast.And) and positive) or (isinstance(test.op, ast.Or) and not positive):
            out = []
            for v in test.values:
                out += conjuncts(v, positive)
            return out
        return [(test, positive)]
    return [(test, positive)]


def disjuncts(test: ast.AST) -> List[ast.AST]:
    if isinstance(test, ast.BoolOp) and isinstance(test.op, ast.Or):
        out = []
        for v in test.values:
            out += disjuncts(v)
        return out
    return [test]
