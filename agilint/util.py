"""Shared helpers for rules: structured path enumeration, call matching, effect summaries."""
from __future__ import annotations

import ast
from dataclasses import dataclass, field
from typing import Callable, Dict, Iterable, List, Optional, Sequence, Set, Tuple

from .core import AnalysisError, Cls, Fn, Repo, call_name, calls_in, dotted, last_attr, short, unparse, walk_no_nested


@dataclass
class Path:
    guards: List[Tuple[ast.AST, bool]] = field(default_factory=list)
    stmts: List[ast.stmt] = field(default_factory=list)
    end: str = "fall"  # fall | continue | break | return | raise

    def extend(self, guards=(), stmts=(), end=None) -> "Path":
        return Path(self.guards + list(guards), self.stmts + list(stmts), end or self.end)


def enumerate_paths(stmts: Sequence[ast.stmt], limit: int = 4096) -> List[Path]:
    """All structured paths through a statement list (if/elif/else, try/except, with; loops are
    treated as opaque single statements).  Raises AnalysisError if the number explodes."""
    paths = [Path()]
    for s in stmts:
        new: List[Path] = []
        for p in paths:
            if p.end != "fall":
                new.append(p)
                continue
            new.extend(_step(p, s, limit))
        paths = new
        if len(paths) > limit:
            raise AnalysisError("path enumeration exceeded its limit")
    return paths


def _step(p: Path, s: ast.stmt, limit: int) -> List[Path]:
    if isinstance(s, ast.If):
        out = []
        for sub in enumerate_paths(s.body, limit):
            out.append(Path(p.guards + [(s.test, True)] + sub.guards, p.stmts + sub.stmts, sub.end))
        for sub in enumerate_paths(s.orelse, limit) if s.orelse else [Path()]:
            out.append(Path(p.guards + [(s.test, False)] + sub.guards, p.stmts + sub.stmts, sub.end))
        return out
    if isinstance(s, ast.Try):
        out = []
        for sub in enumerate_paths(list(s.body) + list(s.orelse) + list(s.finalbody), limit):
            out.append(Path(p.guards + sub.guards, p.stmts + sub.stmts, sub.end))
        for h in s.handlers:
            marker = ast.Expr(value=ast.Constant(value=f"<except {unparse(h.type)}>"))
            ast.copy_location(marker, h)
            for sub in enumerate_paths(list(h.body) + list(s.finalbody), limit):
                out.append(Path(p.guards + [(h, True)] + sub.guards, p.stmts + sub.stmts, sub.end))
        return out
    if isinstance(s, (ast.With, ast.AsyncWith)):
        out = []
        for sub in enumerate_paths(s.body, limit):
            out.append(Path(p.guards + sub.guards, p.stmts + [s] + sub.stmts, sub.end))
        return out
    if isinstance(s, ast.Continue):
        return [Path(p.guards, p.stmts + [s], "continue")]
    if isinstance(s, ast.Break):
        return [Path(p.guards, p.stmts + [s], "break")]
    if isinstance(s, ast.Return):
        return [Path(p.guards, p.stmts + [s], "return")]
    if isinstance(s, ast.Raise):
        return [Path(p.guards, p.stmts + [s], "raise")]
    return [Path(p.guards, p.stmts + [s], p.end)]


def guard_text(guards: List[Tuple[ast.AST, bool]]) -> str:
    parts = []
    for g, pol in guards:
        if isinstance(g, ast.ExceptHandler):
            parts.append(f"except {unparse(g.type)}")
        else:
            parts.append(("" if pol else "not ") + "(" + short(g, 70) + ")")
    return " and ".join(parts) if parts else "<unconditional>"


def parent_map(root: ast.AST) -> Dict[int, ast.AST]:
    pm: Dict[int, ast.AST] = {}
    for n in ast.walk(root):
        for c in ast.iter_child_nodes(n):
            pm[id(c)] = n
    return pm


def enclosing_stmt(node: ast.AST, pm: Dict[int, ast.AST]) -> Optional[ast.stmt]:
    cur = node
    while cur is not None and not isinstance(cur, ast.stmt):
        cur = pm.get(id(cur))
    return cur  # type: ignore[return-value]


def ancestors(node: ast.AST, pm: Dict[int, ast.AST]) -> Iterable[ast.AST]:
    cur = pm.get(id(node))
    while cur is not None:
        yield cur
        cur = pm.get(id(cur))


def find_calls(root: ast.AST, pred: Callable[[ast.Call], bool], nested: bool = False) -> List[ast.Call]:
    return [c for c in calls_in(root, nested=nested) if pred(c)]


def method_calls_on(root: ast.AST, recv: str, nested: bool = False) -> List[ast.Call]:
    """Calls whose receiver chain starts with the name `recv` (recv.m(), recv.a.m())."""
    out = []
    for c in calls_in(root, nested=nested):
        d = call_name(c)
        if d.startswith(recv + ".") and "?" not in d:
            out.append(c)
    return out


def stores_to(root: ast.AST, base: str) -> List[Tuple[ast.AST, str]]:
    """Stores into `base.<...>` (attribute assignment, augmented assignment, subscript store on an
    attribute chain, setattr(base, ...), del).  Returns (node, description)."""
    out: List[Tuple[ast.AST, str]] = []
    for n in walk_no_nested(root):
        targets: List[ast.AST] = []
        if isinstance(n, ast.Assign):
            targets = list(n.targets)
        elif isinstance(n, (ast.AugAssign, ast.AnnAssign)):
            targets = [n.target]
        elif isinstance(n, ast.Delete):
            targets = list(n.targets)
        for t in targets:
            for tt in _flatten_targets(t):
                cur = tt
                while isinstance(cur, ast.Subscript):
                    cur = cur.value
                if isinstance(cur, ast.Attribute) and dotted(cur).split(".")[0] == base:
                    out.append((n, f"store to {short(tt, 60)}"))
                elif isinstance(tt, ast.Subscript) and isinstance(cur, ast.Name) and cur.id == base:
                    out.append((n, f"store into {short(tt, 60)}"))
        if isinstance(n, ast.Call) and call_name(n) in ("setattr", "object.__setattr__", "delattr") and n.args:
            if isinstance(n.args[0], ast.Name) and n.args[0].id == base:
                out.append((n, f"{call_name(n)}({base}, ...)"))
            elif dotted(n.args[0]).split(".")[0] == base and "?" not in dotted(n.args[0]):
                out.append((n, f"{call_name(n)}({dotted(n.args[0])}, ...)"))
    return out


def _flatten_targets(t: ast.AST) -> List[ast.AST]:
    if isinstance(t, (ast.Tuple, ast.List)):
        out = []
        for e in t.elts:
            out += _flatten_targets(e)
        return out
    if isinstance(t, ast.Starred):
        return _flatten_targets(t.value)
    return [t]


INPLACE_METHODS = {"append", "extend", "insert", "pop", "remove", "clear", "update", "sort", "reverse", "setdefault",
                   "popitem", "add", "discard", "appendleft", "popleft"}


def inplace_mutations(root: ast.AST, base: str = "self") -> List[Tuple[ast.AST, str, str]]:
    """(node, attr, how) for in-place mutation of `base.attr` containers: method calls, += , [i] = ."""
    out = []
    for n in walk_no_nested(root):
        if isinstance(n, ast.Call) and isinstance(n.func, ast.Attribute) and n.func.attr in INPLACE_METHODS:
            r = n.func.value
            if isinstance(r, ast.Attribute) and isinstance(r.value, ast.Name) and r.value.id == base:
                out.append((n, r.attr, f".{n.func.attr}()"))
        elif isinstance(n, ast.AugAssign):
            t = n.target
            if isinstance(t, ast.Attribute) and isinstance(t.value, ast.Name) and t.value.id == base:
                out.append((n, t.attr, "augmented assignment"))
            elif isinstance(t, ast.Subscript):
                r = t.value
                if isinstance(r, ast.Attribute) and isinstance(r.value, ast.Name) and r.value.id == base:
                    out.append((n, r.attr, "element augmented assignment"))
        elif isinstance(n, ast.Assign):
            for t in n.targets:
                if isinstance(t, ast.Subscript):
                    r = t.value
                    if isinstance(r, ast.Attribute) and isinstance(r.value, ast.Name) and r.value.id == base:
                        out.append((n, r.attr, "element assignment"))
    return out


def self_attr_stores(fn: Fn, selfname: str = "self") -> Dict[str, List[ast.AST]]:
    """attr -> rhs expressions for every `self.attr = rhs` (plain/annotated assignment) in fn."""
    out: Dict[str, List[ast.AST]] = {}
    for n in walk_no_nested(fn.node):
        if isinstance(n, ast.Assign):
            for t in n.targets:
                for tt, vv in _pair_targets(t, n.value):
                    if isinstance(tt, ast.Attribute) and isinstance(tt.value, ast.Name) and tt.value.id == selfname:
                        out.setdefault(tt.attr, []).append(vv)
        elif isinstance(n, ast.AnnAssign) and n.value is not None:
            tt = n.target
            if isinstance(tt, ast.Attribute) and isinstance(tt.value, ast.Name) and tt.value.id == selfname:
                out.setdefault(tt.attr, []).append(n.value)
    return out


def _pair_targets(t: ast.AST, v: ast.AST) -> List[Tuple[ast.AST, ast.AST]]:
    if isinstance(t, (ast.Tuple, ast.List)):
        if isinstance(v, (ast.Tuple, ast.List)) and len(v.elts) == len(t.elts):
            out = []
            for a, b in zip(t.elts, v.elts):
                out += _pair_targets(a, b)
            return out
        out = []
        for i, a in enumerate(t.elts):
            sub = ast.Subscript(value=v, slice=ast.Constant(value=i), ctx=ast.Load())
            out += _pair_targets(a, sub)
        return out
    return [(t, v)]


def norm(s: str) -> str:
    return " ".join(s.split())


def contains_name(node: ast.AST, name: str) -> bool:
    return any(isinstance(n, ast.Name) and n.id == name for n in ast.walk(node))


def contains_dotted(node: ast.AST, d: str) -> bool:
    for n in ast.walk(node):
        if isinstance(n, (ast.Attribute, ast.Name)) and dotted(n) == d:
            return True
    return False
