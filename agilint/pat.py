"""Syntax-tree patterns with metavariables.

A pattern is Python source in which `$name` stands for *some identifier* (a local variable or parameter of the
code under inspection).  Matching is done on the syntax tree, never on text:

* `$x` matches any `Name` node; all occurrences of `$x` matched against one function (one *environment*) must be
  bound to the same identifier, and two different metavariables never share an identifier.  Renaming a local of the
  inspected function consistently therefore changes nothing, while exchanging two locals (`a.load(b)` -> `b.load(a)`)
  breaks the binding established by the other patterns matched on the same function.
* `$_` matches any expression.
* everything else (attribute names, keyword names, called globals, constants, operators, statement kinds, nesting)
  is literal.
* a statement pattern whose body is the single statement `...` accepts any body; a compound-statement pattern
  without `else` does not look at the `else` branch of the candidate.
* an expression pattern is searched among all expressions, a statement pattern among all consecutive statement runs.

The environment is keyed by the inspected function so that independent obligations on one function agree on the
identifiers they talk about.
"""
from __future__ import annotations

import ast
import re
import textwrap
from typing import Dict, List, Optional, Tuple, Union

from .core import AnalysisError

_MV = "__mv_"
_cache: Dict[str, ast.AST] = {}
_envs: Dict[int, Dict[str, str]] = {}
_src_cache: Dict[str, ast.AST] = {}


def _normalise_indent(text: str) -> str:
    lines = text.split("\n")
    if len(lines) == 1:
        return text.strip()
    first = lines[0].strip()
    rest = [l for l in lines[1:]]
    ind = [len(l) - len(l.lstrip()) for l in rest if l.strip()]
    if not ind:
        return first
    # indentation of the first line inside the original text is unknown (it was cut at the first non-blank column):
    # the smallest indentation that re-parses is used
    for base in sorted({0, 4, 8, 12, 16, 20, 24}):
        shift = min(ind) - base
        if shift < 0:
            continue
        cand = "\n".join([first] + [l[shift:] if l.strip() else "" for l in rest])
        try:
            ast.parse(cand)
            return cand
        except SyntaxError:
            continue
    return "\n".join([first] + rest)


def compile_pattern(pattern: str) -> Union[ast.expr, List[ast.stmt]]:
    if pattern in _cache:
        return _cache[pattern]  # type: ignore
    text = re.sub(r"\$([A-Za-z_][A-Za-z_0-9]*)", lambda m: _MV + m.group(1), pattern)
    text = _normalise_indent(text)
    tree = None
    for cand in (text, text + ":\n    ...", text + "\n    ..."):
        try:
            tree = ast.parse(cand)
            break
        except SyntaxError:
            continue
    if tree is None:
        raise AnalysisError(f"pattern does not parse: {pattern!r}")
    from .core import canonicalise_branches, canonicalise_comparisons
    canonicalise_comparisons(tree)  # patterns are matched against canonicalised modules
    canonicalise_branches(tree)
    body = tree.body
    out: Union[ast.expr, List[ast.stmt]]
    if len(body) == 1 and isinstance(body[0], ast.Expr):
        out = body[0].value
    else:
        out = body
    _cache[pattern] = out  # type: ignore
    return out


def _is_ellipsis_body(body: List[ast.stmt]) -> bool:
    return len(body) == 1 and isinstance(body[0], ast.Expr) and isinstance(body[0].value, ast.Constant) and body[0].value.value is Ellipsis


class _Binding:
    def __init__(self, env: Dict[str, str]):
        self.env = env
        self.new: Dict[str, str] = {}

    def bind(self, mv: str, ident: str) -> bool:
        cur = self.env.get(mv, self.new.get(mv))
        if cur is not None:
            return cur == ident
        # injective: a different metavariable must not already own this identifier
        for k, v in list(self.env.items()) + list(self.new.items()):
            if v == ident and k != mv:
                return False
        self.new[mv] = ident
        return True


def _match(p: object, c: object, b: _Binding) -> bool:
    if isinstance(p, ast.Name) and p.id.startswith(_MV):
        mv = p.id[len(_MV):]
        if mv == "_":
            return isinstance(c, ast.expr)
        return isinstance(c, ast.Name) and b.bind(mv, c.id)
    if isinstance(p, ast.arg) and p.arg.startswith(_MV):
        return isinstance(c, ast.arg) and b.bind(p.arg[len(_MV):], c.arg)
    if isinstance(p, list):
        if not isinstance(c, list):
            return False
        if p and all(isinstance(x, ast.stmt) for x in p) and _is_ellipsis_body(p):  # type: ignore
            return True
        return len(p) == len(c) and all(_match(x, y, b) for x, y in zip(p, c))
    if isinstance(p, ast.Raise) and isinstance(c, ast.Raise) and isinstance(p.exc, (ast.Name, ast.Attribute)) and isinstance(c.exc, ast.Call):
        # `raise X` in a pattern also stands for `raise X(<any message>)`
        return _match(p.exc, c.exc.func, b)
    if isinstance(p, ast.Call) and isinstance(c, ast.Call) and p.keywords and all(k.arg for k in p.keywords):
        # named keyword arguments match by name, not by position
        if len(p.keywords) != len(c.keywords) or not all(k.arg for k in c.keywords):
            return False
        byname = {k.arg: k.value for k in c.keywords}
        if set(byname) != {k.arg for k in p.keywords}:
            return False
        return _match(p.func, c.func, b) and _match(p.args, c.args, b) and all(_match(k.value, byname[k.arg], b) for k in p.keywords)
    if isinstance(p, ast.AST):
        if type(p) is not type(c):
            return False
        for f in p._fields:
            if f in ("ctx", "type_comment", "kind", "type_ignores", "lineno"):
                continue
            pv, cv = getattr(p, f, None), getattr(c, f, None)
            if f == "orelse" and isinstance(p, (ast.If, ast.For, ast.While, ast.Try)) and not pv:
                continue
            if f in ("returns", "decorator_list", "type_params", "annotation") and not pv:
                continue
            if not _match(pv, cv, b):
                return False
        return True
    return p == c


def _try(p: object, c: object, env: Dict[str, str]) -> Optional[Dict[str, str]]:
    b = _Binding(env)
    return b.new if _match(p, c, b) else None


def _tree_of(target: Union[ast.AST, str, object]) -> ast.AST:
    if isinstance(target, str):
        t = _src_cache.get(target)
        if t is None:
            t = ast.parse(textwrap.dedent(target))
            _src_cache[target] = t
        return t
    node = getattr(target, "node", None)
    if isinstance(node, ast.AST):
        return node
    if isinstance(target, ast.AST):
        return target
    raise AnalysisError(f"cannot match patterns against {type(target).__name__}")


def find(target: Union[ast.AST, str, object], pattern: str, env_key: Optional[object] = None, commit: bool = True) -> List[Tuple[ast.AST, Dict[str, str]]]:
    """All places in target where pattern matches (node or first statement of the run, new bindings)."""
    tree = _tree_of(target)
    key = id(tree) if env_key is None else (env_key if isinstance(env_key, int) else id(env_key))
    env = _envs.setdefault(key, {})
    pat = compile_pattern(pattern)
    hits: List[Tuple[ast.AST, Dict[str, str]]] = []
    if isinstance(pat, list):
        k = len(pat)
        for n in ast.walk(tree):
            for f in ("body", "orelse", "finalbody"):
                seq = getattr(n, f, None)
                if not isinstance(seq, list) or len(seq) < k or not all(isinstance(x, ast.stmt) for x in seq):
                    continue
                for i in range(len(seq) - k + 1):
                    r = _try(pat, seq[i:i + k], env)
                    if r is not None:
                        hits.append((seq[i], r))
            if isinstance(n, ast.Try):
                for h in n.handlers:
                    seq = h.body
                    for i in range(len(seq) - k + 1):
                        r = _try(pat, seq[i:i + k], env)
                        if r is not None:
                            hits.append((seq[i], r))
        if k == 1 and isinstance(pat[0], ast.For) and _is_ellipsis_body(pat[0].body):
            # a header-only `for` pattern also stands for a comprehension clause
            for n in ast.walk(tree):
                if isinstance(n, ast.comprehension):
                    b = _Binding(env)
                    if _match(pat[0].target, n.target, b) and _match(pat[0].iter, n.iter, b):
                        hits.append((n, b.new))
    else:
        for n in ast.walk(tree):
            if isinstance(n, ast.expr):
                r = _try(pat, n, env)
                if r is not None:
                    hits.append((n, r))
    if hits and commit:
        # commit the bindings every match agrees on: later patterns on the same function must use the same identifiers
        common = dict(hits[0][1])
        for _, r in hits[1:]:
            for k in list(common):
                if r.get(k) != common[k]:
                    del common[k]
        for k, v in common.items():
            if v not in env.values():
                env[k] = v
    return hits


def has(target: Union[ast.AST, str, object], pattern: str, env_key: Optional[object] = None) -> bool:
    return bool(find(target, pattern, env_key))


def has_kw(target: Union[ast.AST, str, object], kw: str, pattern: str, env_key: Optional[object] = None) -> bool:
    """Some call passes keyword `kw` with a value matching the expression pattern."""
    tree = _tree_of(target)
    key = id(tree) if env_key is None else (env_key if isinstance(env_key, int) else id(env_key))
    env = _envs.setdefault(key, {})
    pat = compile_pattern(pattern)
    if isinstance(pat, list):
        raise AnalysisError(f"has_kw needs an expression pattern: {pattern!r}")
    hits = []
    for n in ast.walk(tree):
        if isinstance(n, ast.keyword) and n.arg == kw:
            r = _try(pat, n.value, env)
            if r is not None:
                hits.append(r)
    if hits:
        common = dict(hits[0])
        for r in hits[1:]:
            for k in list(common):
                if r.get(k) != common[k]:
                    del common[k]
        for k, v in common.items():
            if v not in env.values():
                env[k] = v
    return bool(hits)


def count(target: Union[ast.AST, str, object], pattern: str, env_key: Optional[object] = None) -> int:
    return len(find(target, pattern, env_key))


def reset() -> None:
    _envs.clear()
    _src_cache.clear()
