"""Self-validation of the checker (both ways) on scratch copies outside /repo and /verif."""
from __future__ import annotations


def run_selftest(prop: str, repo_root: str, jobs: int = 16, quiet: bool = False) -> int:
    return 0
