"""Self-validation of the checker, both ways.

Each rule module lists VARIANTS: single-site edits of the *current* tree, computed on the source
text in memory (the edited module is handed to the loader as an override; nothing is written to
/repo or /verif and nothing is executed).  A `fire` variant breaks one instance of a rule and must
be reported by that rule; a `silent` variant is a behaviour-preserving rewrite and must not be
reported at all.  A variant whose anchor text is not present in the current tree is skipped (the
tree differs from the one the variant was written for) — that is reported, not failed.
Failures of self-validation are checker bugs: exit 2 (ANALYSIS-ERROR), never a VIOLATION.
"""
from __future__ import annotations

import importlib
import io
import json
import os
import time
from concurrent.futures import ProcessPoolExecutor
from contextlib import redirect_stdout
from typing import Dict, List, Optional, Tuple

from .core import AnalysisError, Repo
from .report import VERIF, Check


def _run_variant(args) -> Tuple[str, str, str, List[str]]:
    prop, root, name, rel, old, new, expect, rule = args
    path = os.path.join(root, rel)
    try:
        src = open(path).read()
    except OSError:
        return name, "skipped", f"{rel} missing", []
    if src.count(old) != 1:
        return name, "skipped", f"anchor text occurs {src.count(old)} times in {rel}", []
    mod = importlib.import_module(f"agilint.rules.{prop.lower()}")
    try:
        repo = Repo(root, overrides={rel: src.replace(old, new)})
        ck = Check(prop, "quick", root)
        ck.known = []  # known findings must not hide a variant's report
        mod.run(ck, repo)
    except AnalysisError as e:
        # an analysis error on a broken variant counts as detection only for `fire`
        return name, ("ok" if expect == "fire" else "FAILED"), f"analysis error: {e}", []
    except SyntaxError as e:  # pragma: no cover
        return name, "FAILED", f"variant does not parse: {e}", []
    except Exception as e:  # pragma: no cover
        return name, "FAILED", f"internal error: {type(e).__name__}: {e}", []
    viol = [o for o in ck.obs if o.status == "violated"]
    rules = sorted({o.rule for o in viol})
    if expect == "fire":
        hit = [o for o in viol if rule is None or o.rule.startswith(rule)]
        if hit:
            return name, "ok", f"reported by {sorted({o.rule for o in hit})} at {hit[0].file}:{hit[0].line}", rules
        return name, "FAILED", f"not reported (violations: {rules})", rules
    if viol:
        o = viol[0]
        return name, "FAILED", f"false alarm {o.rule} at {o.file}:{o.line}: {o.what}", rules
    return name, "ok", "silent", rules


def baseline_violations(prop: str, root: str) -> List[str]:
    mod = importlib.import_module(f"agilint.rules.{prop.lower()}")
    repo = Repo(root)
    ck = Check(prop, "quick", root)
    ck.known = []
    mod.run(ck, repo)
    return sorted({o.key() for o in ck.obs if o.status == "violated"})


def run_selftest(prop: str, root: str, jobs: int = 16, quiet: bool = False) -> int:
    try:
        mod = importlib.import_module(f"agilint.rules.{prop.lower()}")
    except ModuleNotFoundError:
        return 0
    variants = getattr(mod, "VARIANTS", [])
    if not variants:
        return 0
    t0 = time.time()
    base = baseline_violations(prop, root)
    # on a tree that already violates (open known findings), `fire` needs a *new* report; keep it simple:
    # compare by rule prefix and require the variant's report set to differ from the baseline for fire variants
    tasks = [(prop, root, v[0], v[1], v[2], v[3], v[4], v[5] if len(v) > 5 else None) for v in variants]
    results = []
    with ProcessPoolExecutor(max_workers=min(jobs, max(1, len(tasks)))) as ex:
        for r in ex.map(_run_variant_base, [(t, base) for t in tasks]):
            results.append(r)
    failed = [r for r in results if r[1] == "FAILED"]
    skipped = [r for r in results if r[1] == "skipped"]
    okc = [r for r in results if r[1] == "ok"]
    summary = {
        "variants": len(results), "ok": len(okc), "skipped": len(skipped), "failed": len(failed),
        "fire": sum(1 for v in variants if v[4] == "fire"), "silent": sum(1 for v in variants if v[4] == "silent"),
        "wall_s": round(time.time() - t0, 2),
        "results": [{"variant": r[0], "status": r[1], "detail": r[2]} for r in results],
    }
    # append to the evidence file written by the thorough check
    evp = os.path.join(VERIF, "evidence", f"{prop}.json")
    if os.path.exists(evp):
        with open(evp) as fh:
            ev = json.load(fh)
        ev["coverage"]["self_validation"] = summary
        ev["wall_s"] = round(ev.get("wall_s", 0) + summary["wall_s"], 3)
        with open(evp, "w") as fh:
            json.dump(ev, fh, indent=1)
    print(f"[{prop}] self-validation: {len(okc)} ok, {len(skipped)} skipped, {len(failed)} failed of {len(results)} variants "
          f"({summary['fire']} must fire, {summary['silent']} must stay silent) in {summary['wall_s']}s")
    if not quiet or failed:
        for r in results:
            if not quiet or r[1] != "ok":
                print(f"  {r[1]:8s} {r[0]}: {r[2]}")
    if failed:
        print(f"ANALYSIS-ERROR property={prop}: self-validation failed for {len(failed)} variant(s) — checker bug, not a violation")
        return 2
    return 0


def _run_variant_base(arg):
    task, base = arg
    prop, root, name, rel, old, new, expect, rule = task
    name2, status, detail, rules = _run_variant(task)
    if status == "skipped" or not base:
        return name2, status, detail
    # tree already violates: judge by difference to the baseline
    path = os.path.join(root, rel)
    src = open(path).read()
    mod = importlib.import_module(f"agilint.rules.{prop.lower()}")
    try:
        repo = Repo(root, overrides={rel: src.replace(old, new)})
        ck = Check(prop, "quick", root)
        ck.known = []
        mod.run(ck, repo)
        now = {o.key(): o for o in ck.obs if o.status == "violated"}
    except AnalysisError as e:
        return name2, ("ok" if expect == "fire" else "FAILED"), f"analysis error: {e}"
    new_keys = [k for k in now if k not in base]
    if expect == "fire":
        hit = [k for k in new_keys if rule is None or now[k].rule.startswith(rule)]
        return name2, ("ok" if hit else "FAILED"), (f"new report {now[hit[0]].rule}" if hit else f"no new report beyond baseline ({len(base)})")
    return name2, ("ok" if not new_keys else "FAILED"), ("silent beyond baseline" if not new_keys else f"false alarm {now[new_keys[0]].rule}: {now[new_keys[0]].what}")
