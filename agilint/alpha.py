"""Alpha-renaming self-test: every local variable of every function in the package is renamed consistently
(`x` -> `x_rn`), which cannot change behaviour; every check must give the same verdict as on the unrenamed tree.

This is the generic "must stay silent" half of self-validation: a rule that recognises code by the *spelling* of a
local variable instead of by its role fails here and is a checker bug (exit 2), never a violation.

Not renamed (so the rewrite is certainly behaviour-preserving): parameters (callers may pass them by keyword),
names declared global / nonlocal, names bound by an import inside the function, names that are parameters of a
nested function or lambda, and functions that contain a class definition, a `match` statement or call
locals() / vars() / eval() / exec().
"""
from __future__ import annotations

import ast
import importlib
import os
from collections import Counter
from typing import Dict, List, Set, Tuple

from .core import AnalysisError, Repo
from .report import Check

SUFFIX = "_rn"


def _own_scope_nodes(fn: ast.AST):
    """Nodes of fn including nested functions / lambdas / comprehensions (all share the renaming)."""
    return ast.walk(fn)


def _rename_in_function(fn: ast.AST, opaque: bool = False) -> int:
    params: Set[str] = set()
    a = fn.args
    for x in a.posonlyargs + a.args + a.kwonlyargs + ([a.vararg] if a.vararg else []) + ([a.kwarg] if a.kwarg else []):
        params.add(x.arg)
    excluded: Set[str] = set(params)
    stored: Set[str] = set()
    all_names: Set[str] = set()
    for n in ast.walk(fn):
        if n is fn:
            continue
        if isinstance(n, (ast.ClassDef, ast.Match)):
            return 0
        if isinstance(n, ast.Call) and isinstance(n.func, ast.Name) and n.func.id in ("locals", "vars", "eval", "exec"):
            return 0
        if isinstance(n, (ast.Global, ast.Nonlocal)):
            excluded.update(n.names)
        if isinstance(n, (ast.Import, ast.ImportFrom)):
            for al in n.names:
                excluded.add((al.asname or al.name).split(".")[0])
        if isinstance(n, (ast.FunctionDef, ast.AsyncFunctionDef, ast.Lambda)):
            aa = n.args
            for x in aa.posonlyargs + aa.args + aa.kwonlyargs + ([aa.vararg] if aa.vararg else []) + ([aa.kwarg] if aa.kwarg else []):
                excluded.add(x.arg)
            if not isinstance(n, ast.Lambda):
                excluded.add(n.name)
        if isinstance(n, ast.Name):
            all_names.add(n.id)
            if isinstance(n.ctx, (ast.Store, ast.Del)):
                stored.add(n.id)
        if isinstance(n, ast.ExceptHandler) and n.name:
            stored.add(n.name)
    todo = {x for x in stored if x not in excluded and not x.startswith("__")}
    mapping: Dict[str, str] = {}
    for i, x in enumerate(sorted(todo)):
        # opaque mode: nothing of the original spelling survives (catches substring tests such as `"mask" in name`)
        new = f"zq{i}" if opaque else x + SUFFIX
        while new in all_names or new in params or new in mapping.values():
            new += "_"
        mapping[x] = new
    if not mapping:
        return 0
    for n in ast.walk(fn):
        if isinstance(n, ast.Name) and n.id in mapping:
            n.id = mapping[n.id]
        elif isinstance(n, ast.ExceptHandler) and n.name in mapping:
            n.name = mapping[n.name]
    return len(mapping)


def alpha_rename(src: str, opaque: bool = False) -> Tuple[str, int]:
    tree = ast.parse(src)
    count = 0
    done: Set[int] = set()

    def visit(node: ast.AST, inside_fn: bool) -> None:
        nonlocal count
        for ch in ast.iter_child_nodes(node):
            if isinstance(ch, (ast.FunctionDef, ast.AsyncFunctionDef)) and not inside_fn:
                count += _rename_in_function(ch, opaque)
                # nested functions were renamed together with their parent
                visit(ch, True)
            else:
                visit(ch, inside_fn)

    visit(tree, False)
    return ast.unparse(tree), count


def _verdict(prop: str, repo: Repo, root: str) -> Counter:
    mod = importlib.import_module(f"agilint.rules.{prop.lower()}")
    ck = Check(prop, "quick", root)
    ck.known = []
    mod.run(ck, repo)
    _verdict.last = [o for o in ck.obs if o.status == "violated"]
    return Counter((o.rule, o.file, o.qualname) for o in ck.obs if o.status == "violated"), len(ck.obs)


def reformat_only(src: str) -> Tuple[str, int]:
    """Re-print the module from its syntax tree: comments, blank lines, line breaks and line numbers change, nothing else."""
    return ast.unparse(ast.parse(src)), 1


def reverse_keywords(src: str) -> Tuple[str, int]:
    """Reverse the order of the named keyword arguments of every call (a `**mapping` stays last): same bindings, different spelling order."""
    tree = ast.parse(src)
    k = 0
    for n in ast.walk(tree):
        if isinstance(n, ast.Call) and len([x for x in n.keywords if x.arg]) > 1:
            named = [x for x in n.keywords if x.arg]
            rest = [x for x in n.keywords if not x.arg]
            # keep relative position of **mappings at the end only when they already are at the end
            if n.keywords[: len(named)] == named:
                n.keywords = list(reversed(named)) + rest
                k += 1
    return ast.unparse(tree), k


_MIRROR = {ast.Lt: ast.Gt, ast.Gt: ast.Lt, ast.LtE: ast.GtE, ast.GtE: ast.LtE, ast.Eq: ast.Eq, ast.NotEq: ast.NotEq}


def flip_comparisons(src: str) -> Tuple[str, int]:
    """`a < b` -> `b > a`, `a == b` -> `b == a` for every single-operator comparison whose operands are side-effect free
    (names, attributes, constants, subscripts, arithmetic, len()/min()/max() of those): same truth value, other spelling."""
    tree = ast.parse(src)
    k = 0

    def pure(e: ast.AST) -> bool:
        for x in ast.walk(e):
            if isinstance(x, ast.Call) and not (isinstance(x.func, ast.Name) and x.func.id in ("len", "min", "max", "int", "float", "abs", "sum", "type", "tuple")):
                return False
            if isinstance(x, (ast.Await, ast.Yield, ast.YieldFrom, ast.NamedExpr, ast.Lambda)):
                return False
        return True

    for n in ast.walk(tree):
        if isinstance(n, ast.Compare) and len(n.ops) == 1 and type(n.ops[0]) in _MIRROR and pure(n.left) and pure(n.comparators[0]):
            # keep `x == None`-style and string/constant comparisons as they are when the constant is on the right and the op is symmetric? no: flip all
            n.left, n.comparators[0] = n.comparators[0], n.left
            n.ops[0] = _MIRROR[type(n.ops[0])]()
            k += 1
    return ast.unparse(tree), k


def swap_branches(src: str) -> Tuple[str, int]:
    """`if c: A else: B` -> `if not c: B else: A` (plain two-way ifs only, no elif chains) and `x if c else y` -> `y if not c else x`."""
    tree = ast.parse(src)
    k = 0
    for n in ast.walk(tree):
        if isinstance(n, ast.If) and n.orelse and not (len(n.orelse) == 1 and isinstance(n.orelse[0], ast.If)):
            n.test = ast.UnaryOp(op=ast.Not(), operand=n.test)
            n.body, n.orelse = n.orelse, n.body
            k += 1
        elif isinstance(n, ast.IfExp):
            n.test = ast.UnaryOp(op=ast.Not(), operand=n.test)
            n.body, n.orelse = n.orelse, n.body
            k += 1
    ast.fix_missing_locations(tree)
    return ast.unparse(tree), k


def run_alpha(props: List[str], root: str, evidence: bool = False) -> int:
    worst = 0
    for opaque in (False, True):
        worst = max(worst, _run_alpha_mode(props, root, opaque))
    worst = max(worst, _run_alpha_mode(props, root, False, transform=reformat_only, mode="re-printed from the syntax tree (no comments, other line numbers)"))
    worst = max(worst, _run_alpha_mode(props, root, False, transform=reverse_keywords, mode="keyword arguments of every call in reverse order"))
    worst = max(worst, _run_alpha_mode(props, root, False, transform=flip_comparisons, mode="comparisons written the other way round"))
    worst = max(worst, _run_alpha_mode(props, root, False, transform=swap_branches, mode="two-way branches swapped under the negated condition"))
    if evidence:
        import json
        from .report import VERIF
        for p in props:
            evp = os.path.join(VERIF, "evidence", f"{p}.json")
            if os.path.exists(evp):
                with open(evp) as fh:
                    ev = json.load(fh)
                ev["coverage"].setdefault("self_validation", {})["alpha_renaming"] = {
                    "modes": ["suffix _rn", "opaque zq<i>", "re-printed source", "reversed keyword arguments", "flipped comparisons", "swapped two-way branches"], "verdict": "same verdict and obligation count on the renamed tree" if worst == 0 else "FAILED",
                    "what": "every local variable of every function of the package renamed consistently in memory; a changed verdict is a checker bug"}
                with open(evp, "w") as fh:
                    json.dump(ev, fh, indent=1)
    if worst:
        print(f"ANALYSIS-ERROR property={','.join(props)}: alpha-renaming self-test failed — checker bug, not a violation")
    return worst


def _run_alpha_mode(props: List[str], root: str, opaque: bool, transform=None, mode: str = "") -> int:
    mode = mode or ("opaque names zq<i>" if opaque else f"suffix {SUFFIX}")
    overrides: Dict[str, str] = {}
    renamed = 0
    base_repo = Repo(root)
    for m in base_repo.mods.values():
        path = os.path.join(root, m.rel)
        src = open(path).read()
        try:
            new, k = transform(src) if transform is not None else alpha_rename(src, opaque)
        except SyntaxError:
            continue
        if k:
            overrides[m.rel] = new
            renamed += k
    print(f"alpha-rename ({mode}): {renamed} sites rewritten in {len(overrides)} modules")
    worst = 0
    for p in props:
        try:
            base, nb = _verdict(p, Repo(root), root)
        except AnalysisError as e:
            print(f"[{p}] alpha ({mode}): baseline analysis error: {e}")
            worst = 2
            continue
        try:
            now, nn = _verdict(p, Repo(root, overrides=dict(overrides)), root)
        except AnalysisError as e:
            print(f"[{p}] alpha ({mode}): FAILED — analysis error on the renamed tree: {e}")
            worst = 2
            continue
        except Exception as e:
            print(f"[{p}] alpha ({mode}): FAILED — internal error on the renamed tree: {type(e).__name__}: {e}")
            worst = 2
            continue
        extra = now - base
        missing = base - now
        if extra or missing or nn != nb:
            worst = 2
            print(f"[{p}] alpha ({mode}): FAILED — verdict changed under consistent renaming of locals (obligations {nb} -> {nn})")
            for k, v in sorted(extra.items()):
                print(f"    false alarm x{v}: {k}")
                if os.environ.get("ALPHA_VERBOSE"):
                    for o in [o for o in _verdict.last if (o.rule, o.file, o.qualname) == k][:8]:
                        print(f"        L{o.line} {o.what[:150]} || {o.detail[:200]} || `{o.construct[:80]}`")
            for k, v in sorted(missing.items()):
                print(f"    lost report x{v}: {k}")
        else:
            print(f"[{p}] alpha ({mode}): ok — {nb} obligations, same verdict on the renamed tree")
    return worst
