"""Front-end normalisation: helper inlining and guard clauses.

The rules are written against functions the repository names today (`copy_attributes`, `preserve_parameters`, `RLParameter.mutate`, ...).
A maintainer who tidies one of them up by *extracting a helper* (`self._clip(x)`, `_common_index(a, b)`, `self._copy_tensor(attr)`) leaves the
behaviour unchanged but moves the statements a rule looks for out of the function it inspects.  To keep the verdicts independent of that kind of
edit, every module is normalised when it is loaded:

* **helper inlining** — a call of a function that (a) is defined exactly once in the whole package, (b) lives in the same module as the caller,
  (c) is private (leading underscore) and *not known to any rule* (its name occurs nowhere in the analyser's source: the functions the
  rules anchor on are never touched),
  (d) is small, non-recursive, without `*args`, generators, nested definitions, decorators other than `staticmethod` / `classmethod`, and
  (e) returns only in tail position, is replaced by its body: parameters are substituted by side-effect-free arguments (others are bound to a
  temporary first), the helper's locals get a unique suffix, tail `return e` becomes an assignment to the call's target.  A helper whose body
  is a single `return <expr>` is inlined inside any expression.  Up to three levels deep.
* **guard clauses in loops** — `if c: ...; continue` directly in a loop body followed by more statements is rewritten to `if c: ... else: <rest>`
  (`if c: continue` becomes `if not c: <rest>`), so a nested-`if` form and an early-`continue` form of one loop load as the same tree.

Both are behaviour-preserving transformations of the program that is analysed; the helper definitions themselves stay in place.
`AGILINT_INLINE=0` disables the pass (the checks must then give the same verdict on today's tree).
"""
from __future__ import annotations

import ast
import copy
import glob
import os
import re
from typing import Dict, List, Optional, Set, Tuple

MAX_STMTS = 45
MAX_DEPTH = 3

_known_cache: Optional[Set[str]] = None


def known_names() -> Set[str]:
    """Every identifier-like token of the analyser's own source (rules included): helpers with such a name are anchors, never inlined."""
    global _known_cache
    if _known_cache is None:
        here = os.path.dirname(os.path.abspath(__file__))
        names: Set[str] = set()
        for f in glob.glob(os.path.join(here, "*.py")) + glob.glob(os.path.join(here, "rules", "*.py")):
            if os.path.basename(f) == "inline.py":
                continue
            with open(f, "r", encoding="utf-8") as fh:
                src = fh.read()
            # the self-validation variants (text edits of the library, at the bottom of each rule module) are not rules: a helper that only a
            # variant introduces must stay inlinable
            try:
                tree = ast.parse(src)
                tree.body = [n for n in tree.body if not (isinstance(n, (ast.Assign, ast.AugAssign)) and any(
                    isinstance(t, ast.Name) and t.id == "VARIANTS" for t in (n.targets if isinstance(n, ast.Assign) else [n.target])))]
                src = ast.unparse(tree)
            except SyntaxError:
                pass
            names.update(re.findall(r"[A-Za-z_][A-Za-z0-9_]*", src))
        _known_cache = names
    return _known_cache


# ----------------------------------------------------------------------------------------------------------- eligibility
def _stmt_count(fd: ast.AST) -> int:
    return sum(1 for x in ast.walk(fd) if isinstance(x, ast.stmt)) - 1


def _body_without_doc(fd: ast.FunctionDef) -> List[ast.stmt]:
    body = list(fd.body)
    if body and isinstance(body[0], ast.Expr) and isinstance(body[0].value, ast.Constant) and isinstance(body[0].value.value, str):
        body = body[1:]
    return body


def _tail_returns_only(stmts: List[ast.stmt]) -> bool:
    """Every `return` of the statement list is in tail position (last statement, recursively through if / else; a guard clause
    `if c: ...; return x` followed by more statements counts, the rest becoming its else branch)."""
    for i, s in enumerate(stmts):
        last = i == len(stmts) - 1
        if isinstance(s, ast.Return):
            if not last:
                return False
        elif isinstance(s, ast.If):
            if last:
                if not (_tail_returns_only(s.body) and _tail_returns_only(s.orelse)):
                    return False
            else:
                body_ret = _always_returns(s.body)
                if body_ret and not s.orelse:
                    if not _tail_returns_only(s.body):
                        return False
                    return _tail_returns_only(stmts[i + 1:])
                if _has_return(s):
                    return False
        elif isinstance(s, (ast.With, ast.AsyncWith)) and last:
            # a `with` block that ends the body is tail position too: its `return e` becomes `target = e` inside the block
            if not _tail_returns_only(s.body):
                return False
        elif _has_return(s):
            return False
    return True


def _has_return(s: ast.AST) -> bool:
    for x in ast.walk(s):
        if isinstance(x, ast.Return):
            return True
    return False


def _always_returns(stmts: List[ast.stmt]) -> bool:
    if not stmts:
        return False
    s = stmts[-1]
    if isinstance(s, (ast.Return, ast.Raise)):
        return True
    if isinstance(s, ast.If):
        return _always_returns(s.body) and _always_returns(s.orelse)
    if isinstance(s, (ast.With, ast.AsyncWith)):
        return _always_returns(s.body)
    return False


def _eligible(fd: ast.FunctionDef, known: Set[str]) -> bool:
    if fd.name in known or fd.name.startswith("__") or not fd.name.startswith("_"):
        return False  # only private helpers (the form an extracted helper takes); public functions are API and stay calls
    for d in fd.decorator_list:
        if not (isinstance(d, ast.Name) and d.id in ("staticmethod", "classmethod")):
            return False
    a = fd.args
    if a.vararg or a.kwarg or a.posonlyargs:
        return False
    if _stmt_count(fd) > MAX_STMTS:
        return False
    for x in ast.walk(fd):
        if x is fd:
            continue
        if isinstance(x, (ast.FunctionDef, ast.AsyncFunctionDef, ast.ClassDef, ast.Lambda, ast.Yield, ast.YieldFrom, ast.Await, ast.Global, ast.Nonlocal)):
            return False
        if isinstance(x, ast.Call):
            f = x.func
            if (isinstance(f, ast.Name) and f.id == fd.name) or (isinstance(f, ast.Attribute) and f.attr == fd.name):
                return False  # recursive
            if isinstance(f, ast.Name) and f.id in ("locals", "vars", "super"):
                return False
    return _tail_returns_only(_body_without_doc(fd))


def _simple_arg(e: ast.AST) -> bool:
    if isinstance(e, (ast.Name, ast.Constant)):
        return True
    if isinstance(e, ast.Attribute):
        return _simple_arg(e.value)
    if isinstance(e, ast.UnaryOp) and isinstance(e.operand, ast.Constant):
        return True
    return False


# ----------------------------------------------------------------------------------------------------------- the pass
class _Ctx:
    def __init__(self) -> None:
        self.k = 0
        self.sites = 0

    def fresh(self) -> int:
        self.k += 1
        return self.k


class _Renamer(ast.NodeTransformer):
    def __init__(self, subst: Dict[str, ast.AST], rename: Dict[str, str]):
        self.subst = subst
        self.rename = rename

    def visit_Name(self, node: ast.Name):
        if node.id in self.rename:
            return ast.copy_location(ast.Name(id=self.rename[node.id], ctx=node.ctx), node)
        if node.id in self.subst and isinstance(node.ctx, ast.Load):
            return ast.copy_location(copy.deepcopy(self.subst[node.id]), node)
        return node

    def visit_arg(self, node: ast.arg):
        return node


def _stored_names(stmts: List[ast.stmt]) -> Set[str]:
    out: Set[str] = set()
    for s in stmts:
        for x in ast.walk(s):
            if isinstance(x, ast.Name) and isinstance(x.ctx, (ast.Store, ast.Del)):
                out.add(x.id)
            elif isinstance(x, ast.ExceptHandler) and x.name:
                out.add(x.name)
    return out


def _bind(fd: ast.FunctionDef, call: ast.Call, is_method: bool, receiver: Optional[ast.AST]) -> Optional[Dict[str, ast.AST]]:
    params = [a.arg for a in fd.args.args]
    defaults = list(fd.args.defaults)
    dmap: Dict[str, ast.AST] = {}
    for p, d in zip(params[len(params) - len(defaults):], defaults):
        dmap[p] = d
    for a, d in zip(fd.args.kwonlyargs, fd.args.kw_defaults):
        params.append(a.arg)
        if d is not None:
            dmap[a.arg] = d
    bound: Dict[str, ast.AST] = {}
    pos = [a.arg for a in fd.args.args]
    if is_method:
        if not pos:
            return None
        if receiver is not None:
            bound[pos[0]] = receiver
        pos = pos[1:]
    if any(isinstance(a, ast.Starred) for a in call.args) or any(k.arg is None for k in call.keywords):
        return None
    if len(call.args) > len(pos):
        return None
    for p, a in zip(pos, call.args):
        bound[p] = a
    for k in call.keywords:
        if k.arg not in params or k.arg in bound:
            return None
        bound[k.arg] = k.value
    for p in params:
        if p not in bound:
            if p in dmap:
                bound[p] = dmap[p]
            elif is_method and receiver is None and p == [a.arg for a in fd.args.args][0]:
                continue  # cls of a classmethod called through the class: left free (rarely used in the body)
            else:
                return None
    return bound


def _convert_returns(stmts: List[ast.stmt], target: Optional[ast.AST]) -> List[ast.stmt]:
    out: List[ast.stmt] = []
    for i, s in enumerate(stmts):
        last = i == len(stmts) - 1
        if isinstance(s, ast.Return):
            if target is not None:
                val = s.value if s.value is not None else ast.Constant(value=None)
                out.append(ast.copy_location(ast.Assign(targets=[copy.deepcopy(target)], value=val, lineno=s.lineno), s))
            elif s.value is not None and isinstance(s.value, ast.Call):
                out.append(ast.copy_location(ast.Expr(value=s.value), s))
            return out
        if isinstance(s, ast.If):
            if last:
                new = copy.copy(s)
                new.body = _convert_returns(s.body, target) or [ast.copy_location(ast.Pass(), s)]
                new.orelse = _convert_returns(s.orelse, target)
                if target is not None and not s.orelse and not _always_returns(s.body):
                    pass
                out.append(new)
                return out
            if _always_returns(s.body) and not s.orelse and _has_return(s):
                new = copy.copy(s)
                new.body = _convert_returns(s.body, target) or [ast.copy_location(ast.Pass(), s)]
                new.orelse = _convert_returns(stmts[i + 1:], target)
                out.append(new)
                return out
        if isinstance(s, (ast.With, ast.AsyncWith)) and last and _has_return(s):
            new = copy.copy(s)
            new.body = _convert_returns(s.body, target) or [ast.copy_location(ast.Pass(), s)]
            out.append(new)
            return out
        out.append(s)
    return out


def _expand_call(fd: ast.FunctionDef, call: ast.Call, is_method: bool, receiver: Optional[ast.AST], target: Optional[ast.AST], ctx: _Ctx
                 ) -> Optional[List[ast.stmt]]:
    bound = _bind(fd, call, is_method, receiver)
    if bound is None:
        return None
    k = ctx.fresh()
    body = copy.deepcopy(_body_without_doc(fd))
    stored = _stored_names(body)
    pre: List[ast.stmt] = []
    subst: Dict[str, ast.AST] = {}
    rename: Dict[str, str] = {}
    for p, a in bound.items():
        if _simple_arg(a) and p not in stored:
            subst[p] = a
        else:
            tmp = f"{p}__inl{k}"
            rename[p] = tmp
            pre.append(ast.copy_location(ast.Assign(targets=[ast.Name(id=tmp, ctx=ast.Store())], value=copy.deepcopy(a), lineno=call.lineno), call))
    for n in stored:
        if n not in rename and n not in bound:
            rename[n] = f"{n}__inl{k}"
    rn = _Renamer(subst, rename)
    body = [rn.visit(s) for s in body]
    body = _convert_returns(body, target)
    body = _fold_result_copy(body, target, set(rename.values()), bound)
    return pre + body


def _fold_result_copy(body: List[ast.stmt], target: Optional[ast.AST], helper_locals: Set[str], bound: Dict[str, ast.AST]) -> List[ast.stmt]:
    """`r__inl1 = ...; ...; x = r__inl1` (the helper returned one of its own locals): the local IS the result — it is renamed to the target and the copy
    dropped, so the caller's variable keeps its definition (`x = torch.zeros(...)`) instead of becoming an alias of a temporary."""
    if not isinstance(target, ast.Name) or not body:
        return body
    # only the plain shape: exactly one conversion `target = <helper local>`, as the last statement of the body
    last = body[-1]
    if not (isinstance(last, ast.Assign) and len(last.targets) == 1 and isinstance(last.targets[0], ast.Name) and last.targets[0].id == target.id
            and isinstance(last.value, ast.Name) and last.value.id in helper_locals):
        return body
    tmp = last.value.id
    others = [s for s in body[:-1] for x in ast.walk(s) if isinstance(x, ast.Name) and x.id == target.id]
    if others or any(isinstance(x, ast.Name) and x.id == target.id for a in bound.values() for x in ast.walk(a)):
        return body  # the target is read or written inside the body / by an argument: keep the copy
    class R(ast.NodeTransformer):
        def visit_Name(self, n: ast.Name):
            return ast.copy_location(ast.Name(id=target.id, ctx=n.ctx), n) if n.id == tmp else n
    return [R().visit(s) for s in body[:-1]]


def _expr_helper(fd: ast.FunctionDef) -> Optional[ast.AST]:
    body = _body_without_doc(fd)
    if len(body) == 1 and isinstance(body[0], ast.Return) and body[0].value is not None:
        return body[0].value
    return None


class _Inliner:
    def __init__(self, tree: ast.Module, global_counts: Dict[str, int], known: Set[str]):
        self.tree = tree
        self.ctx = _Ctx()
        # candidates of this module: ("", name) module level, (class, name) methods
        self.mod_fns: Dict[str, ast.FunctionDef] = {}
        self.methods: Dict[str, Tuple[str, ast.FunctionDef]] = {}
        for node in tree.body:
            if isinstance(node, ast.FunctionDef) and global_counts.get(node.name, 0) == 1 and _eligible(node, known):
                self.mod_fns[node.name] = node
            elif isinstance(node, ast.ClassDef):
                for sub in node.body:
                    if isinstance(sub, ast.FunctionDef) and global_counts.get(sub.name, 0) == 1 and _eligible(sub, known):
                        self.methods[sub.name] = (node.name, sub)

    def _resolve(self, call: ast.Call, cls_name: Optional[str]) -> Optional[Tuple[ast.FunctionDef, bool, Optional[ast.AST]]]:
        f = call.func
        if isinstance(f, ast.Name) and f.id in self.mod_fns:
            return self.mod_fns[f.id], False, None
        if isinstance(f, ast.Attribute) and f.attr in self.methods:
            owner, fd = self.methods[f.attr]
            static = any(isinstance(d, ast.Name) and d.id == "staticmethod" for d in fd.decorator_list)
            clsm = any(isinstance(d, ast.Name) and d.id == "classmethod" for d in fd.decorator_list)
            if isinstance(f.value, ast.Name) and f.value.id in ("self", "cls") and cls_name is not None:
                if static:
                    return fd, False, None
                return fd, True, f.value
            if isinstance(f.value, ast.Name) and f.value.id == owner:
                if static:
                    return fd, False, None
                if clsm:
                    return fd, True, f.value
        return None

    # ---- expression helpers inside arbitrary expressions
    def _inline_exprs(self, node: ast.AST, cls_name: Optional[str], current: str, depth: int) -> ast.AST:
        me = self

        class T(ast.NodeTransformer):
            def visit_Call(self, c: ast.Call):
                self.generic_visit(c)
                r = me._resolve(c, cls_name)
                if r is None:
                    return c
                fd, is_method, recv = r
                if fd.name == current:
                    return c
                e = _expr_helper(fd)
                if e is None:
                    return c
                bound = _bind(fd, c, is_method, recv)
                if bound is None:
                    return c
                # every parameter is substituted textually: arguments must be side-effect free or used at most once
                uses: Dict[str, int] = {}
                for x in ast.walk(e):
                    if isinstance(x, ast.Name):
                        uses[x.id] = uses.get(x.id, 0) + 1
                for p, a in bound.items():
                    if not _simple_arg(a) and uses.get(p, 0) > 1:
                        return c
                if any(isinstance(x, (ast.ListComp, ast.SetComp, ast.DictComp, ast.GeneratorExp)) for x in ast.walk(e)) and \
                        any(not _simple_arg(a) for a in bound.values()):
                    return c
                me.ctx.sites += 1
                new = _Renamer(dict(bound), {}).visit(copy.deepcopy(e))
                return ast.copy_location(new, c)

            def visit_FunctionDef(self, n):
                return n

            def visit_Lambda(self, n):
                return n

        return T().visit(node)

    # ---- statements
    def _stmts(self, stmts: List[ast.stmt], cls_name: Optional[str], current: str, depth: int) -> List[ast.stmt]:
        out: List[ast.stmt] = []
        for s in stmts:
            if isinstance(s, (ast.FunctionDef, ast.AsyncFunctionDef, ast.ClassDef)):
                out.append(s)
                continue
            expanded = None
            if depth < MAX_DEPTH:
                call, target, ret = None, None, False
                if isinstance(s, ast.Expr) and isinstance(s.value, ast.Call):
                    call = s.value
                elif isinstance(s, ast.Assign) and len(s.targets) == 1 and isinstance(s.value, ast.Call) and isinstance(s.targets[0], (ast.Name, ast.Attribute, ast.Subscript)):
                    call, target = s.value, s.targets[0]
                elif isinstance(s, ast.Return) and isinstance(s.value, ast.Call):
                    call, ret = s.value, True
                if call is not None:
                    r = self._resolve(call, cls_name)
                    if r is not None and r[0].name != current and _expr_helper(r[0]) is None:
                        fd, is_method, recv = r
                        if ret:
                            target = ast.Name(id=f"ret__inl{self.ctx.k + 1}", ctx=ast.Store())
                        if target is not None and isinstance(target, (ast.Attribute, ast.Subscript)) and not _simple_arg(target if isinstance(target, ast.Attribute) else target.value):
                            body = None
                        else:
                            body = _expand_call(fd, call, is_method, recv, target, self.ctx)
                        if body is not None:
                            self.ctx.sites += 1
                            if ret:
                                body.append(ast.copy_location(ast.Return(value=ast.Name(id=target.id, ctx=ast.Load())), s))
                            for b in body:
                                ast.fix_missing_locations(b)
                            expanded = self._stmts(body, cls_name, current, depth + 1)
            # `if helper(...):` / `if not helper(...):` with a multi-statement helper: the call is evaluated first, so it is hoisted into a temporary
            # in front of the statement and expanded there
            if expanded is None and depth < MAX_DEPTH and isinstance(s, ast.If):
                t = s.test
                neg = isinstance(t, ast.UnaryOp) and isinstance(t.op, ast.Not)
                tc = t.operand if neg else t
                if isinstance(tc, ast.Call):
                    r = self._resolve(tc, cls_name)
                    if r is not None and r[0].name != current and _expr_helper(r[0]) is None:
                        fd, is_method, recv = r
                        tmp = f"test__inl{self.ctx.k + 1}"
                        body = _expand_call(fd, tc, is_method, recv, ast.Name(id=tmp, ctx=ast.Store()), self.ctx)
                        if body is not None:
                            self.ctx.sites += 1
                            for b in body:
                                ast.copy_location(b, s) if not hasattr(b, "lineno") else None
                                ast.fix_missing_locations(b)
                            newtest = ast.copy_location(ast.Name(id=tmp, ctx=ast.Load()), tc)
                            s.test = ast.copy_location(ast.UnaryOp(op=ast.Not(), operand=newtest), t) if neg else newtest
                            out.extend(self._stmts(body, cls_name, current, depth + 1))
            # a multi-statement helper called somewhere INSIDE a simple statement (`return a, self._h(), b`; `x = f(self._h(y))`): the call is hoisted
            # into a temporary in front of the statement and expanded there (the program is analysed, not run: the other operands of the statement are
            # not re-ordered against each other, only the helper's body now precedes them)
            if expanded is None and depth < MAX_DEPTH and isinstance(s, (ast.Expr, ast.Assign, ast.AugAssign, ast.AnnAssign, ast.Return)) and getattr(s, "value", None) is not None:
                hoisted: List[ast.stmt] = []
                me = self

                class H(ast.NodeTransformer):
                    def visit_Call(self, c: ast.Call):
                        self.generic_visit(c)
                        if c is getattr(s, "value", None):
                            return c  # the whole-value case was handled above
                        r = me._resolve(c, cls_name)
                        if r is None or r[0].name == current or _expr_helper(r[0]) is not None:
                            return c
                        fd, is_method, recv = r
                        tmp = f"val__inl{me.ctx.k + 1}"
                        body = _expand_call(fd, c, is_method, recv, ast.Name(id=tmp, ctx=ast.Store()), me.ctx)
                        if body is None:
                            return c
                        me.ctx.sites += 1
                        hoisted.extend(body)
                        return ast.copy_location(ast.Name(id=tmp, ctx=ast.Load()), c)

                    def visit_Lambda(self, n):
                        return n

                    def visit_ListComp(self, n):
                        return n

                    def visit_SetComp(self, n):
                        return n

                    def visit_DictComp(self, n):
                        return n

                    def visit_GeneratorExp(self, n):
                        return n

                    def visit_IfExp(self, n):
                        n.test = self.visit(n.test)
                        return n  # the arms are evaluated conditionally: a helper there is not hoisted

                    def visit_BoolOp(self, n):
                        n.values[0] = self.visit(n.values[0])
                        return n

                s.value = H().visit(s.value)
                if hoisted:
                    for b in hoisted:
                        ast.fix_missing_locations(ast.copy_location(b, s) if not hasattr(b, "lineno") else b)
                    out.extend(self._stmts(hoisted, cls_name, current, depth + 1))
            if expanded is not None:
                out.extend(expanded)
                continue
            # compound statements: recurse into their bodies; expression helpers anywhere in the headers / simple statements
            for field in ("body", "orelse", "finalbody"):
                sub = getattr(s, field, None)
                if isinstance(sub, list) and sub and isinstance(sub[0], ast.stmt):
                    setattr(s, field, self._stmts(sub, cls_name, current, depth))
            if isinstance(s, ast.Try):
                for h in s.handlers:
                    h.body = self._stmts(h.body, cls_name, current, depth)
            if hasattr(ast, "Match") and isinstance(s, getattr(ast, "Match")):
                for c in s.cases:
                    c.body = self._stmts(c.body, cls_name, current, depth)
            s = self._inline_header_exprs(s, cls_name, current, depth)
            out.append(s)
        return out

    def _inline_header_exprs(self, s: ast.stmt, cls_name: Optional[str], current: str, depth: int) -> ast.stmt:
        # only the expressions evaluated by s itself (bodies were handled by _stmts)
        for name, val in list(ast.iter_fields(s)):
            if name in ("body", "orelse", "finalbody", "handlers", "cases"):
                continue
            if isinstance(val, ast.AST) and not isinstance(val, ast.stmt):
                setattr(s, name, self._inline_exprs(val, cls_name, current, depth))
            elif isinstance(val, list):
                setattr(s, name, [self._inline_exprs(v, cls_name, current, depth) if isinstance(v, ast.AST) and not isinstance(v, ast.stmt) else v for v in val])
        return s

    def run(self) -> int:
        if not self.mod_fns and not self.methods:
            return 0
        for node in self.tree.body:
            if isinstance(node, ast.FunctionDef):
                node.body = self._stmts(node.body, None, node.name, 0)
            elif isinstance(node, ast.ClassDef):
                for sub in node.body:
                    if isinstance(sub, ast.FunctionDef):
                        sub.body = self._stmts(sub.body, node.name, sub.name, 0)
        if self.ctx.sites:
            ast.fix_missing_locations(self.tree)
        return self.ctx.sites


def count_defs(trees: List[ast.Module]) -> Dict[str, int]:
    counts: Dict[str, int] = {}
    for t in trees:
        for n in ast.walk(t):
            if isinstance(n, (ast.FunctionDef, ast.AsyncFunctionDef)):
                counts[n.name] = counts.get(n.name, 0) + 1
    return counts


def inline_helpers(tree: ast.Module, global_counts: Dict[str, int], known: Optional[Set[str]] = None) -> int:
    return _Inliner(tree, global_counts, known if known is not None else known_names()).run()


# ----------------------------------------------------------------------------------------------------------- guard clauses
def _ends_with_continue(stmts: List[ast.stmt]) -> bool:
    return bool(stmts) and isinstance(stmts[-1], ast.Continue)


def _has_loop_jump(stmts: List[ast.stmt]) -> bool:
    """a `continue` / `break` that belongs to the enclosing loop (not to a nested one)."""
    def walk(ss: List[ast.stmt]) -> bool:
        for s in ss:
            if isinstance(s, (ast.Continue, ast.Break)):
                return True
            if isinstance(s, (ast.For, ast.AsyncFor, ast.While, ast.FunctionDef, ast.AsyncFunctionDef, ast.ClassDef)):
                continue
            for field in ("body", "orelse", "finalbody"):
                sub = getattr(s, field, None)
                if isinstance(sub, list) and sub and isinstance(sub[0], ast.stmt) and walk(sub):
                    return True
            if isinstance(s, ast.Try):
                for h in s.handlers:
                    if walk(h.body):
                        return True
        return False
    return walk(stmts)


def _nest_guards(body: List[ast.stmt]) -> Tuple[List[ast.stmt], int]:
    """loop body: `if c: A; continue` + rest  ->  `if c: A else: rest`  (A without jumps of its own)."""
    k = 0
    for i, s in enumerate(body):
        rest = body[i + 1:]
        if isinstance(s, ast.If) and not s.orelse and _ends_with_continue(s.body) and rest and not _has_loop_jump(s.body[:-1]):
            new_rest, k2 = _nest_guards(rest)
            k += k2 + 1
            head = s.body[:-1]
            if head:
                new = ast.copy_location(ast.If(test=s.test, body=head, orelse=new_rest), s)
            else:
                test = s.test
                if isinstance(test, ast.UnaryOp) and isinstance(test.op, ast.Not):
                    test = test.operand
                else:
                    test = ast.copy_location(ast.UnaryOp(op=ast.Not(), operand=test), s.test)
                new = ast.copy_location(ast.If(test=test, body=new_rest, orelse=[]), s)
            return body[:i] + [new], k
    return body, k


def canonicalise_guards(tree: ast.AST) -> int:
    k = 0
    for n in ast.walk(tree):
        if isinstance(n, (ast.For, ast.AsyncFor, ast.While)):
            n.body, k2 = _nest_guards(n.body)
            k += k2
    if k:
        ast.fix_missing_locations(tree)
    return k


# ----------------------------------------------------------------------------------------------------------- quantifiers over literal tuples
def _literal_elems(e: ast.AST, singles: Dict[str, ast.AST]) -> Optional[List[ast.AST]]:
    if isinstance(e, ast.Name) and e.id in singles:
        e = singles[e.id]
    if isinstance(e, (ast.Tuple, ast.List)) and 1 <= len(e.elts) <= 4 and all(_simple_arg(x) for x in e.elts):
        return list(e.elts)
    return None


def canonicalise_quantifiers(tree: ast.AST) -> int:
    """`any(f(v) for v in (a, b))` is loaded as `f(a) or f(b)` and `all(...)` as `f(a) and f(b)` when the iterable is a literal tuple / list
    of up to four names / attributes / constants, or a local bound exactly once to such a literal."""
    k = 0
    for fn in ast.walk(tree):
        if not isinstance(fn, (ast.FunctionDef, ast.AsyncFunctionDef)):
            continue
        stores: Dict[str, int] = {}
        vals: Dict[str, ast.AST] = {}
        for x in ast.walk(fn):
            if isinstance(x, ast.Name) and isinstance(x.ctx, ast.Store):
                stores[x.id] = stores.get(x.id, 0) + 1
            if isinstance(x, ast.Assign) and len(x.targets) == 1 and isinstance(x.targets[0], ast.Name):
                vals[x.targets[0].id] = x.value
        singles = {n: v for n, v in vals.items() if stores.get(n) == 1}

        class T(ast.NodeTransformer):
            def visit_Call(self, c: ast.Call):
                nonlocal k
                self.generic_visit(c)
                if not (isinstance(c.func, ast.Name) and c.func.id in ("any", "all") and len(c.args) == 1 and not c.keywords):
                    return c
                g = c.args[0]
                if not (isinstance(g, (ast.GeneratorExp, ast.ListComp)) and len(g.generators) == 1):
                    return c
                gen = g.generators[0]
                if gen.ifs or gen.is_async or not isinstance(gen.target, ast.Name):
                    return c
                elems = _literal_elems(gen.iter, singles)
                if elems is None:
                    return c
                parts = [_Renamer({gen.target.id: el}, {}).visit(copy.deepcopy(g.elt)) for el in elems]
                k += 1
                new = parts[0] if len(parts) == 1 else ast.BoolOp(op=ast.Or() if c.func.id == "any" else ast.And(), values=parts)
                return ast.copy_location(new, c)

        for i, s in enumerate(fn.body):
            fn.body[i] = T().visit(s)
    if k:
        ast.fix_missing_locations(tree)
    return k


# ----------------------------------------------------------------------------------------------------------- negated comparisons
_NEG = {ast.Is: ast.IsNot, ast.IsNot: ast.Is, ast.Eq: ast.NotEq, ast.NotEq: ast.Eq, ast.In: ast.NotIn, ast.NotIn: ast.In}


def canonicalise_negations(tree: ast.AST) -> int:
    """`not (a is None)` -> `a is not None` (is / is not / == / != / in / not in; order comparisons are left alone: `not (a < b)` is not
    `b <= a` for NaN), `not (not x)` -> `x` in a boolean context (the test of an if / while / conditional expression)."""
    k = 0

    class T(ast.NodeTransformer):
        def visit_UnaryOp(self, n: ast.UnaryOp):
            nonlocal k
            self.generic_visit(n)
            if isinstance(n.op, ast.Not):
                o = n.operand
                if isinstance(o, ast.Compare) and len(o.ops) == 1 and type(o.ops[0]) in _NEG:
                    k += 1
                    return ast.copy_location(ast.Compare(left=o.left, ops=[_NEG[type(o.ops[0])]()], comparators=o.comparators), n)
            return n

    T().visit(tree)
    for n in ast.walk(tree):
        if isinstance(n, (ast.If, ast.While, ast.IfExp)):
            while isinstance(n.test, ast.UnaryOp) and isinstance(n.test.op, ast.Not) and isinstance(n.test.operand, ast.UnaryOp) and isinstance(n.test.operand.op, ast.Not):
                n.test = n.test.operand.operand
                k += 1
    if k:
        ast.fix_missing_locations(tree)
    return k


# ----------------------------------------------------------------------------------------------------------- filtered loops
def _names_loaded(node: ast.AST) -> Dict[str, int]:
    out: Dict[str, int] = {}
    for x in ast.walk(node):
        if isinstance(x, ast.Name) and isinstance(x.ctx, ast.Load):
            out[x.id] = out.get(x.id, 0) + 1
    return out


def canonicalise_filtered_loops(tree: ast.AST) -> int:
    """`xs = [e for e in X if c]` immediately followed by `for e2 in xs: body`, with `xs` used nowhere else in the function, is loaded as
    `for e in X: if c: body` (the comprehension must map every element to itself; the loop variable takes the comprehension variable's place)."""
    k = 0
    for fn in ast.walk(tree):
        if not isinstance(fn, (ast.FunctionDef, ast.AsyncFunctionDef)):
            continue
        loads = _names_loaded(fn)
        stores: Dict[str, int] = {}
        for x in ast.walk(fn):
            if isinstance(x, ast.Name) and isinstance(x.ctx, ast.Store):
                stores[x.id] = stores.get(x.id, 0) + 1

        def fuse(stmts: List[ast.stmt]) -> List[ast.stmt]:
            nonlocal k
            out: List[ast.stmt] = []
            i = 0
            while i < len(stmts):
                s = stmts[i]
                nxt = stmts[i + 1] if i + 1 < len(stmts) else None
                done = False
                if isinstance(s, ast.Assign) and len(s.targets) == 1 and isinstance(s.targets[0], ast.Name) and isinstance(s.value, ast.ListComp) \
                        and isinstance(nxt, ast.For) and isinstance(nxt.iter, ast.Name) and nxt.iter.id == s.targets[0].id and not nxt.orelse \
                        and isinstance(nxt.target, ast.Name):
                    xs = s.targets[0].id
                    lc = s.value
                    if len(lc.generators) == 1 and isinstance(lc.generators[0].target, ast.Name) and isinstance(lc.elt, ast.Name) \
                            and lc.elt.id == lc.generators[0].target.id and lc.generators[0].ifs and loads.get(xs, 0) == 1 and stores.get(xs, 0) == 1:
                        gen = lc.generators[0]
                        var, loopvar = gen.target.id, nxt.target.id
                        ren = _Renamer({}, {var: loopvar})
                        tests = [ren.visit(copy.deepcopy(t)) for t in gen.ifs]
                        test = tests[0] if len(tests) == 1 else ast.BoolOp(op=ast.And(), values=tests)
                        inner = ast.copy_location(ast.If(test=test, body=fuse(nxt.body), orelse=[]), s)
                        new = ast.copy_location(ast.For(target=nxt.target, iter=gen.iter, body=[inner], orelse=[], type_comment=None), nxt)
                        out.append(new)
                        k += 1
                        i += 2
                        done = True
                if not done:
                    for field in ("body", "orelse", "finalbody"):
                        sub = getattr(s, field, None)
                        if isinstance(sub, list) and sub and isinstance(sub[0], ast.stmt) and not isinstance(s, (ast.FunctionDef, ast.AsyncFunctionDef, ast.ClassDef)):
                            setattr(s, field, fuse(sub))
                    if isinstance(s, ast.Try):
                        for h in s.handlers:
                            h.body = fuse(h.body)
                    out.append(s)
                    i += 1
            return out

        fn.body = fuse(fn.body)
    if k:
        ast.fix_missing_locations(tree)
    return k


# ----------------------------------------------------------------------------------------------------------- conditional assignments
def canonicalise_conditional_assignments(tree: ast.AST) -> int:
    """`x = a if c else b` is loaded as `if c: x = a else: x = b` (also for `return`, augmented and annotated assignments; nested conditional
    expressions become nested statements).  The statement form is the canonical one: a rule that enumerates paths, guards or reaching
    definitions then sees the same program whichever way the source spells the choice."""
    k = 0

    def split(s: ast.stmt) -> Optional[ast.stmt]:
        nonlocal k
        v = getattr(s, "value", None)
        if not isinstance(v, ast.IfExp):
            return None
        if isinstance(s, ast.Assign):
            if len(s.targets) != 1 or not _side_effect_free_target(s.targets[0]):
                return None
            mk = lambda val: ast.copy_location(ast.Assign(targets=[copy.deepcopy(s.targets[0])], value=val, lineno=s.lineno), s)
        elif isinstance(s, ast.AnnAssign):
            if not isinstance(s.target, ast.Name):
                return None
            mk = lambda val: ast.copy_location(ast.Assign(targets=[ast.Name(id=s.target.id, ctx=ast.Store())], value=val, lineno=s.lineno), s)
        elif isinstance(s, ast.AugAssign):
            if not _side_effect_free_target(s.target):
                return None
            mk = lambda val: ast.copy_location(ast.AugAssign(target=copy.deepcopy(s.target), op=s.op, value=val), s)
        elif isinstance(s, ast.Return):
            mk = lambda val: ast.copy_location(ast.Return(value=val), s)
        else:
            return None
        k += 1
        a, b = mk(v.body), mk(v.orelse)
        new = ast.copy_location(ast.If(test=v.test, body=[split(a) or a], orelse=[split(b) or b]), s)
        return new

    def walk(stmts: List[ast.stmt]) -> List[ast.stmt]:
        out = []
        for s in stmts:
            for field in ("body", "orelse", "finalbody"):
                sub = getattr(s, field, None)
                if isinstance(sub, list) and sub and isinstance(sub[0], ast.stmt):
                    setattr(s, field, walk(sub))
            if isinstance(s, ast.Try):
                for h in s.handlers:
                    h.body = walk(h.body)
            if hasattr(ast, "Match") and isinstance(s, getattr(ast, "Match")):
                for c in s.cases:
                    c.body = walk(c.body)
            out.append(split(s) or s)
        return out

    for n in ast.walk(tree):
        if isinstance(n, (ast.Module,)):
            n.body = walk(n.body)
    if k:
        ast.fix_missing_locations(tree)
    return k


def _side_effect_free_target(t: ast.AST) -> bool:
    if isinstance(t, ast.Name):
        return True
    if isinstance(t, ast.Attribute):
        return _simple_arg(t.value)
    if isinstance(t, ast.Subscript):
        return _simple_arg(t.value) and (_simple_arg(t.slice) or isinstance(t.slice, ast.Constant))
    return False


def canonicalise_parallel_assignments(tree: ast.AST) -> int:
    """`a, b = x, y` over plain distinct names, where neither x nor y reads a or b, is loaded as `a = x; b = y`
    (same evaluation order, same bindings): rules that follow a single definition see through the packed form."""
    n = 0

    def split(s: ast.stmt) -> Optional[List[ast.stmt]]:
        if not (isinstance(s, ast.Assign) and len(s.targets) == 1 and isinstance(s.targets[0], ast.Tuple) and isinstance(s.value, ast.Tuple)):
            return None
        ts, vs = s.targets[0].elts, s.value.elts
        if len(ts) != len(vs) or len(ts) < 2 or not all(isinstance(t, ast.Name) for t in ts) or any(isinstance(v, ast.Starred) for v in vs):
            return None
        names = [t.id for t in ts]
        if len(set(names)) != len(names):
            return None
        for v in vs:
            for x in ast.walk(v):
                if isinstance(x, ast.Name) and x.id in names:
                    return None
                if isinstance(x, (ast.NamedExpr, ast.Lambda)):
                    return None
        return [ast.copy_location(ast.Assign(targets=[t], value=v, type_comment=None), s) for t, v in zip(ts, vs)]

    def walk(stmts: List[ast.stmt]) -> List[ast.stmt]:
        nonlocal n
        out: List[ast.stmt] = []
        for s in stmts:
            for f in ("body", "orelse", "finalbody"):
                sub = getattr(s, f, None)
                if isinstance(sub, list) and sub and isinstance(sub[0], ast.stmt):
                    setattr(s, f, walk(sub))
            for h in getattr(s, "handlers", []) or []:
                h.body = walk(h.body)
            for c in getattr(s, "cases", []) or []:
                c.body = walk(c.body)
            r = split(s)
            if r is None:
                out.append(s)
            else:
                n += 1
                out.extend(r)
        return out

    for node in ast.walk(tree):
        if isinstance(node, (ast.FunctionDef, ast.AsyncFunctionDef)):
            node.body = walk(node.body)
    ast.fix_missing_locations(tree)
    return n
